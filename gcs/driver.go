// Package gcs holds the Cloud Storage side: an HTTP-level driver for the real gcsemu handler
// (requests are real *http.Request values served through the mux that Register fills, so URL
// parsing, the gzip/drain wrappers and the batch route are all included), a request vocabulary
// and a naive reference model (model.go).
package gcs

import (
	"bytes"
	"compress/gzip"
	"context"
	"crypto/md5"
	"encoding/base64"
	"encoding/json"
	"fmt"
	"io"
	"mime/multipart"
	"net/http"
	"net/http/httptest"
	"net/textproto"
	"net/url"
	"os"
	"runtime/debug"
	"sort"
	"strconv"
	"strings"

	"github.com/fullstorydev/emulators/storage/gcsemu"
	"google.golang.org/api/storage/v1"

	"verif/sched"
)

type HTTPReq struct {
	Method string            `json:"method"`
	URL    string            `json:"url"`
	Header map[string]string `json:"header,omitempty"`
	Body   []byte            `json:"body,omitempty"`
	// SlowBody: the body arrives in two pieces and every read of it is a scheduling point (a client on a real
	// connection sends its body while other requests are being served).
	SlowBody bool `json:"slow_body,omitempty"`
}

// slowBody hands out the body in pieces of at most half its length; every Read is a scheduling point.
type slowBody struct {
	b     []byte
	piece int
}

func (s *slowBody) Read(p []byte) (int, error) {
	pt("body.read")
	if len(s.b) == 0 {
		return 0, io.EOF
	}
	n := min(len(p), s.piece, len(s.b))
	copy(p, s.b[:n])
	s.b = s.b[n:]
	return n, nil
}

func (r HTTPReq) String() string {
	s := r.Method + " " + r.URL
	if len(r.Header) > 0 {
		var ks []string
		for k, v := range r.Header {
			ks = append(ks, k+": "+v)
		}
		sort.Strings(ks)
		s += " {" + strings.Join(ks, "; ") + "}"
	}
	if len(r.Body) > 0 {
		b := r.Body
		if len(b) > 120 {
			b = b[:120]
		}
		s += fmt.Sprintf(" body=%q", b)
	}
	return s
}

type HTTPResp struct {
	Status int         `json:"status"`
	Header http.Header `json:"header,omitempty"`
	Body   []byte      `json:"body,omitempty"`
	Panic  string      `json:"panic,omitempty"`
}

// Driver serves requests in-process through the emulator's own mux.
type Driver struct {
	Kind  string // "mem" | "file"
	Dir   string
	Emu   *gcsemu.GcsEmu
	Mux   *http.ServeMux
	Store gcsemu.Store
}

// WrapStore, when set, wraps the store before it is handed to the emulator (scheduler points).
func NewDriver(kind, dir string, wrap func(gcsemu.Store) gcsemu.Store) *Driver {
	d := &Driver{Kind: kind, Dir: dir}
	switch kind {
	case "mem":
		d.Store = gcsemu.NewMemStore()
	case "file":
		d.Store = gcsemu.NewFileStore(dir)
	default:
		panic("unknown store kind " + kind)
	}
	st := d.Store
	if wrap != nil {
		st = wrap(st)
	}
	d.Emu = gcsemu.NewGcsEmu(gcsemu.Options{Store: st})
	d.Mux = http.NewServeMux()
	d.Emu.Register(d.Mux)
	return d
}

const Host = "gcs.test"

// Do serves one HTTP request. A panic in the handler is recovered and reported (net/http would
// have killed the connection).
func (d *Driver) Do(r HTTPReq) (resp HTTPResp) {
	return d.DoCtx(context.Background(), r)
}

func (d *Driver) DoCtx(ctx context.Context, r HTTPReq) (resp HTTPResp) {
	if sched.Active() == nil {
		// Outside a controlled execution (sequential checks) the request is run as a one-thread controlled
		// execution of its own: a lock that an earlier request left held makes it block, which is then "no enabled
		// thread" - reported like a panic - instead of a hang of the checker.
		x := sched.Run(nil, 2_000_000, nil, func() { resp = d.serve(ctx, r) })
		switch {
		case x.Deadlock:
			return HTTPResp{Status: -1, Panic: "the request never completes: it waits forever at " + x.Blocked[0] + " (an earlier request left a lock held)"}
		case x.NPanic > 0:
			return HTTPResp{Status: -1, Panic: x.Panics[0]}
		case x.Horizon:
			return HTTPResp{Status: -1, Panic: "the request did not complete within 2000000 scheduling points"}
		}
		return resp
	}
	return d.serve(ctx, r)
}

func (d *Driver) serve(ctx context.Context, r HTTPReq) (resp HTTPResp) {
	// a request boundary is a scheduling point: between two requests of one client (e.g. the initiation of an
	// upload session and its first chunk) any other client may act
	pt("request")
	defer func() {
		if p := recover(); p != nil {
			resp = HTTPResp{Panic: fmt.Sprintf("%v\n%s", p, trimStack(debug.Stack()))}
		}
	}()
	var body io.Reader = http.NoBody // a server-side request always has a non-nil Body
	if r.Body != nil {
		body = bytes.NewReader(r.Body)
		if r.SlowBody {
			body = &slowBody{b: r.Body, piece: (len(r.Body) + 1) / 2}
		}
	}
	req, err := http.NewRequestWithContext(ctx, r.Method, "http://"+Host+r.URL, body)
	if err != nil {
		return HTTPResp{Status: -1, Body: []byte("cannot build request: " + err.Error())}
	}
	req.RequestURI = r.URL
	req.RemoteAddr = "127.0.0.1:1"
	for k, v := range r.Header {
		req.Header.Set(k, v)
	}
	if r.Body != nil {
		req.ContentLength = int64(len(r.Body))
	}
	rec := httptest.NewRecorder()
	d.Mux.ServeHTTP(rec, req)
	res := rec.Result()
	b, _ := io.ReadAll(res.Body)
	// the recorder does not enforce what a real connection does: a body longer than the declared Content-Length is
	// cut off (and the write fails), a shorter one makes the client fail with an unexpected EOF
	if cl := res.Header.Get("Content-Length"); cl != "" && r.Method != "HEAD" {
		if n, err := strconv.Atoi(cl); err != nil || n != len(b) {
			return HTTPResp{Status: res.StatusCode, Header: res.Header, Body: b,
				Panic: fmt.Sprintf("malformed response: Content-Length header %q but the handler wrote %d body bytes (a real client receives a truncated body or an unexpected EOF)", cl, len(b))}
		}
	}
	return HTTPResp{Status: res.StatusCode, Header: res.Header, Body: b}
}

func trimStack(b []byte) string {
	lines := strings.Split(string(b), "\n")
	var keep []string
	for i := 0; i < len(lines); i++ {
		if strings.Contains(lines[i], "emulators/storage") {
			keep = append(keep, strings.TrimSpace(lines[i]))
			if i+1 < len(lines) {
				keep = append(keep, "   "+strings.TrimSpace(lines[i+1]))
			}
		}
		if len(keep) >= 8 {
			break
		}
	}
	return strings.Join(keep, "\n")
}

// ---- request builders (what the official clients send) --------------------------------------------

func esc(name string) string { return url.PathEscape(name) }

func condQuery(conds map[string]string) string {
	var ks []string
	for k := range conds {
		ks = append(ks, k)
	}
	sort.Strings(ks)
	s := ""
	for _, k := range ks {
		if raw, ok := strings.CutPrefix(conds[k], "RAW:"); ok {
			s += "&" + k + "=" + raw // deliberately malformed at the URL level
			continue
		}
		s += "&" + k + "=" + url.QueryEscape(conds[k])
	}
	return s
}

func gz(b []byte) []byte {
	var buf bytes.Buffer
	w := gzip.NewWriter(&buf)
	_, _ = w.Write(b)
	_ = w.Close()
	return buf.Bytes()
}

// gzMembers compresses b as several concatenated gzip members (valid per RFC 1952: the
// decompressed stream is the concatenation).
func gzMembers(b []byte, n int) []byte {
	if n <= 1 || len(b) < n {
		return gz(b)
	}
	var out []byte
	sz := len(b) / n
	for i := 0; i < n; i++ {
		lo, hi := i*sz, (i+1)*sz
		if i == n-1 {
			hi = len(b)
		}
		out = append(out, gz(b[lo:hi])...)
	}
	return out
}

// GzipMembers is the number of gzip members request builders use for compressed bodies.
var GzipMembers = 1

// Gz compresses b (one gzip member); Gunzip is its inverse.
func Gz(b []byte) []byte { return gz(b) }

func Gunzip(b []byte) ([]byte, error) {
	zr, err := gzip.NewReader(bytes.NewReader(b))
	if err != nil {
		return nil, err
	}
	return io.ReadAll(zr)
}

func MD5b64(b []byte) string {
	h := md5.Sum(b)
	return base64.StdEncoding.EncodeToString(h[:])
}

// ObjMeta are the user-settable fields a client supplies with an upload / patch / compose.
type ObjMeta struct {
	ContentType        string            `json:"contentType,omitempty"`
	Metadata           map[string]string `json:"metadata,omitempty"`
	CacheControl       string            `json:"cacheControl,omitempty"`
	ContentDisposition string            `json:"contentDisposition,omitempty"`
	ContentLanguage    string            `json:"contentLanguage,omitempty"`
	ContentEncoding    string            `json:"contentEncoding,omitempty"`
	Md5Hash            string            `json:"md5Hash,omitempty"`
}

func metaJSON(name string, m ObjMeta) []byte {
	x := map[string]interface{}{}
	if name != "" {
		x["name"] = name
	}
	b, _ := json.Marshal(m)
	_ = json.Unmarshal(b, &x)
	if name != "" {
		x["name"] = name
	}
	out, _ := json.Marshal(x)
	return out
}

func ReqCreateBucket(b string) HTTPReq {
	body, _ := json.Marshal(map[string]string{"name": b})
	return HTTPReq{Method: "POST", URL: "/storage/v1/b?project=p", Header: map[string]string{"Content-Type": "application/json"}, Body: body}
}

func ReqDeleteBucket(b string) HTTPReq { return HTTPReq{Method: "DELETE", URL: "/storage/v1/b/" + b} }
func ReqGetBucket(b string) HTTPReq    { return HTTPReq{Method: "GET", URL: "/storage/v1/b/" + b} }

func ReqUploadMedia(b, name string, data []byte, m ObjMeta, conds map[string]string, gzipBody bool) HTTPReq {
	r := HTTPReq{Method: "POST", URL: "/upload/storage/v1/b/" + b + "/o?uploadType=media&name=" + url.QueryEscape(name) + condQuery(conds),
		Header: map[string]string{"Content-Type": m.ContentType}, Body: data}
	if r.Body == nil {
		r.Body = []byte{}
	}
	if gzipBody {
		r.Body = gzMembers(data, GzipMembers)
		r.Header["Content-Encoding"] = "gzip"
	}
	return r
}

// AltType, when not empty, is what the SECONDARY carrier of the content type says (the Content-Type of the media
// part of a multipart upload, the X-Upload-Content-Type header of a resumable initiation) while the object resource
// names its own contentType: the resource wins.
var AltType string

func ReqUploadMultipart(b, name string, data []byte, m ObjMeta, conds map[string]string, gzipBody bool) HTTPReq {
	var buf bytes.Buffer
	mw := multipart.NewWriter(&buf)
	_ = mw.SetBoundary("verif-boundary-1f2e3d")
	h := textproto.MIMEHeader{}
	h.Set("Content-Type", "application/json; charset=UTF-8")
	p, _ := mw.CreatePart(h)
	_, _ = p.Write(metaJSON(name, m))
	h2 := textproto.MIMEHeader{}
	ct := m.ContentType
	if ct == "" {
		ct = "application/octet-stream"
	} else if AltType != "" {
		ct = AltType
	}
	h2.Set("Content-Type", ct)
	p2, _ := mw.CreatePart(h2)
	_, _ = p2.Write(data)
	_ = mw.Close()
	r := HTTPReq{Method: "POST", URL: "/upload/storage/v1/b/" + b + "/o?uploadType=multipart" + condQuery(conds),
		Header: map[string]string{"Content-Type": "multipart/related; boundary=" + mw.Boundary()}, Body: buf.Bytes()}
	if gzipBody {
		r.Body = gzMembers(r.Body, GzipMembers)
		r.Header["Content-Encoding"] = "gzip"
	}
	return r
}

func ReqResumableStart(b, name string, m ObjMeta, conds map[string]string) HTTPReq {
	xt := m.ContentType
	if xt != "" && AltType != "" {
		xt = AltType
	}
	return HTTPReq{Method: "POST", URL: "/upload/storage/v1/b/" + b + "/o?uploadType=resumable" + condQuery(conds),
		Header: map[string]string{"Content-Type": "application/json; charset=UTF-8", "X-Upload-Content-Type": xt}, Body: metaJSON(name, m)}
}

// ReqResumableChunk: the session URL is what the server answered in Location (path+query).
func ReqResumableChunk(sessionURL string, data []byte, contentRange string, no308, gzipBody bool) HTTPReq {
	r := HTTPReq{Method: "PUT", URL: sessionURL, Header: map[string]string{"Content-Range": contentRange}, Body: data}
	if r.Body == nil {
		r.Body = []byte{}
	}
	if no308 {
		r.Header["X-Guploader-No-308"] = "yes"
	}
	if gzipBody && len(data) > 0 {
		r.Body = gzMembers(data, GzipMembers)
		r.Header["Content-Encoding"] = "gzip"
	}
	return r
}

func ReqGetMedia(form, b, name string) HTTPReq {
	switch form {
	case "download":
		return HTTPReq{Method: "GET", URL: "/download/storage/v1/b/" + b + "/o/" + esc(name) + "?alt=media"}
	case "public":
		// the public form addresses the object by path: every '/' of the name is a real separator
		parts := strings.Split(name, "/")
		for i := range parts {
			parts[i] = url.PathEscape(parts[i])
		}
		return HTTPReq{Method: "GET", URL: "/" + b + "/" + strings.Join(parts, "/")}
	}
	return HTTPReq{Method: "GET", URL: "/storage/v1/b/" + b + "/o/" + esc(name) + "?alt=media"}
}

func ReqGetMeta(b, name string) HTTPReq {
	return HTTPReq{Method: "GET", URL: "/storage/v1/b/" + b + "/o/" + esc(name) + "?alt=json"}
}

func ReqDelete(b, name string, conds map[string]string) HTTPReq {
	q := condQuery(conds)
	if q != "" {
		q = "?" + q[1:]
	}
	return HTTPReq{Method: "DELETE", URL: "/storage/v1/b/" + b + "/o/" + esc(name) + q}
}

func ReqPatch(b, name string, body []byte, conds map[string]string) HTTPReq {
	return HTTPReq{Method: "PATCH", URL: "/storage/v1/b/" + b + "/o/" + esc(name) + "?alt=json" + condQuery(conds),
		Header: map[string]string{"Content-Type": "application/json"}, Body: body}
}

func ReqList(b string, q url.Values) HTTPReq {
	u := "/storage/v1/b/" + b + "/o"
	if len(q) > 0 {
		u += "?" + q.Encode()
	}
	return HTTPReq{Method: "GET", URL: u}
}

type ComposeSrc struct {
	Name     string `json:"name"`
	GenMatch int64  `json:"genMatch,omitempty"` // 0 = none
}

func ReqCompose(b, dst string, srcs []ComposeSrc, dest *ObjMeta, conds map[string]string) HTTPReq {
	body := map[string]interface{}{}
	var so []map[string]interface{}
	for _, s := range srcs {
		e := map[string]interface{}{"name": s.Name}
		if s.GenMatch != 0 {
			e["objectPreconditions"] = map[string]interface{}{"ifGenerationMatch": strconv.FormatInt(s.GenMatch, 10)}
		}
		so = append(so, e)
	}
	body["sourceObjects"] = so
	if dest != nil {
		var dm map[string]interface{}
		_ = json.Unmarshal(metaJSON("", *dest), &dm)
		body["destination"] = dm
	}
	bb, _ := json.Marshal(body)
	q := condQuery(conds)
	if q != "" {
		q = "?" + q[1:]
	}
	return HTTPReq{Method: "POST", URL: "/storage/v1/b/" + b + "/o/" + esc(dst) + "/compose" + q,
		Header: map[string]string{"Content-Type": "application/json"}, Body: bb}
}

func ReqCopy(sb, src, db, dst string) HTTPReq {
	return HTTPReq{Method: "POST", URL: "/storage/v1/b/" + sb + "/o/" + esc(src) + "/rewriteTo/b/" + db + "/o/" + esc(dst),
		Header: map[string]string{"Content-Type": "application/json"}, Body: []byte("{}")}
}

// ReqCopyWith: a rewrite whose body carries an object resource (the fields a client wants the destination to have).
func ReqCopyWith(sb, src, db, dst string, m ObjMeta) HTTPReq {
	r := ReqCopy(sb, src, db, dst)
	r.Body = metaJSON("", m)
	return r
}

// ---- response decoding ----------------------------------------------------------------------------

// ObjView is what a client can observe of an object's metadata.
type ObjView struct {
	Name               string            `json:"name"`
	Bucket             string            `json:"bucket"`
	Size               uint64            `json:"size"`
	MD5                string            `json:"md5"`
	ContentType        string            `json:"contentType"`
	Metadata           map[string]string `json:"metadata,omitempty"`
	CacheControl       string            `json:"cacheControl,omitempty"`
	ContentDisposition string            `json:"contentDisposition,omitempty"`
	ContentLanguage    string            `json:"contentLanguage,omitempty"`
	ContentEncoding    string            `json:"contentEncoding,omitempty"`
	Generation         int64             `json:"generation"`
	Metageneration     int64             `json:"metageneration"`
}

func ViewOf(o *storage.Object) ObjView {
	return ObjView{Name: o.Name, Bucket: o.Bucket, Size: o.Size, MD5: o.Md5Hash, ContentType: o.ContentType, Metadata: o.Metadata,
		CacheControl: o.CacheControl, ContentDisposition: o.ContentDisposition, ContentLanguage: o.ContentLanguage, ContentEncoding: o.ContentEncoding,
		Generation: o.Generation, Metageneration: o.Metageneration}
}

func (v ObjView) String() string {
	var mk []string
	for k, x := range v.Metadata {
		mk = append(mk, k+"="+x)
	}
	sort.Strings(mk)
	return fmt.Sprintf("{%s/%s size=%d md5=%s ct=%q meta=%v cc=%q cd=%q cl=%q ce=%q gen=%d metagen=%d}", v.Bucket, v.Name, v.Size, v.MD5, v.ContentType, mk,
		v.CacheControl, v.ContentDisposition, v.ContentLanguage, v.ContentEncoding, v.Generation, v.Metageneration)
}

// ParseObject decodes an object resource from a JSON body.
func ParseObject(b []byte) (*ObjView, error) {
	var o storage.Object
	if err := json.Unmarshal(b, &o); err != nil {
		return nil, err
	}
	if o.Kind != "storage#object" && o.Name == "" {
		return nil, fmt.Errorf("not an object resource: %.100s", b)
	}
	v := ViewOf(&o)
	return &v, nil
}

// APIError decodes a JSON API error body; ok=false when the body is not one.
func APIError(b []byte) (code int, msg string, ok bool) {
	var e struct {
		Error *struct {
			Code    int    `json:"code"`
			Message string `json:"message"`
		} `json:"error"`
	}
	if err := json.Unmarshal(b, &e); err != nil || e.Error == nil {
		return 0, "", false
	}
	return e.Error.Code, e.Error.Message, true
}

type ListPage struct {
	Items    []ObjView
	Prefixes []string
	Next     string
}

func ParseList(b []byte) (*ListPage, error) {
	var o storage.Objects
	if err := json.Unmarshal(b, &o); err != nil {
		return nil, err
	}
	p := &ListPage{Prefixes: o.Prefixes, Next: o.NextPageToken}
	for i, it := range o.Items {
		if it == nil {
			return nil, fmt.Errorf("items[%d] of the listing is null", i)
		}
		p.Items = append(p.Items, ViewOf(it))
	}
	return p, nil
}

// ---- scheduler-aware store wrapper ----------------------------------------------------------------

// PointStore makes every Store call a scheduling point (no-op when no controlled execution runs).
type PointStore struct{ gcsemu.Store }

//go:norace
func pt(tag string) {
	if t := sched.Cur(); t != nil {
		t.Point(tag)
	}
}

func (p PointStore) CreateBucket(b string) error {
	pt("Store.CreateBucket")
	return p.Store.CreateBucket(b)
}
func (p PointStore) GetBucketMeta(u gcsemu.HttpBaseUrl, b string) (*storage.Bucket, error) {
	pt("Store.GetBucketMeta")
	return p.Store.GetBucketMeta(u, b)
}
func (p PointStore) Get(u gcsemu.HttpBaseUrl, b, f string) (*storage.Object, []byte, error) {
	pt("Store.Get")
	return p.Store.Get(u, b, f)
}
func (p PointStore) GetMeta(u gcsemu.HttpBaseUrl, b, f string) (*storage.Object, error) {
	pt("Store.GetMeta")
	return p.Store.GetMeta(u, b, f)
}
func (p PointStore) Add(b, f string, c []byte, m *storage.Object) error {
	pt("Store.Add")
	return p.Store.Add(b, f, c, m)
}
func (p PointStore) UpdateMeta(b, f string, m *storage.Object, mg int64) error {
	pt("Store.UpdateMeta")
	return p.Store.UpdateMeta(b, f, m, mg)
}
func (p PointStore) Copy(sb, sf, db, df string) (bool, error) {
	pt("Store.Copy")
	return p.Store.Copy(sb, sf, db, df)
}
func (p PointStore) Delete(b, f string) error { pt("Store.Delete"); return p.Store.Delete(b, f) }
func (p PointStore) ReadMeta(u gcsemu.HttpBaseUrl, b, f string, fi os.FileInfo) (*storage.Object, error) {
	pt("Store.ReadMeta")
	return p.Store.ReadMeta(u, b, f, fi)
}
func (p PointStore) Walk(ctx context.Context, b string, cb func(ctx context.Context, filename string, fInfo os.FileInfo) error) error {
	pt("Store.Walk")
	return p.Store.Walk(ctx, b, cb)
}
