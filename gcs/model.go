package gcs

import (
	"bytes"
	"encoding/base64"
	"encoding/json"
	"fmt"
	"sort"
	"strconv"
	"strings"
)

// Reference model of the JSON API subset, from the API documentation; maps and slices only.
// Generations are chosen by the implementation: the model requires "fresh and greater than every
// generation that (bucket, name) ever had" and then adopts the value.

type MObj struct {
	Content   []byte
	V         ObjView // Size/MD5 are derived from Content unless Composite
	Composite bool    // md5 not constrained
}

type Model struct {
	Buckets map[string]map[string]*MObj
	MaxGen  map[string]int64 // "bucket/name" -> greatest generation ever observed
}

func NewModel() *Model {
	return &Model{Buckets: map[string]map[string]*MObj{}, MaxGen: map[string]int64{}}
}

func (m *Model) Get(b, n string) *MObj {
	if bk := m.Buckets[b]; bk != nil {
		return bk[n]
	}
	return nil
}

func (m *Model) View(b, n string) *ObjView {
	o := m.Get(b, n)
	if o == nil {
		return nil
	}
	v := o.V
	v.Bucket, v.Name = b, n
	v.Size = uint64(len(o.Content))
	if !o.Composite {
		v.MD5 = MD5b64(o.Content)
	}
	return &v
}

func (m *Model) Names(b string) []string {
	var ns []string
	for n := range m.Buckets[b] {
		ns = append(ns, n)
	}
	sort.Strings(ns)
	return ns
}

// Conds: raw query values keyed by parameter name.
type CondResult struct {
	Bad      bool  // unparsable -> 400
	OK       bool  // all hold
	Statuses []int // allowed failure statuses
}

var condNames = []string{"ifGenerationMatch", "ifGenerationNotMatch", "ifMetagenerationMatch", "ifMetagenerationNotMatch"}

func EvalConds(o *ObjView, conds map[string]string) CondResult {
	vals := map[string]int64{}
	for _, k := range condNames {
		s, ok := conds[k]
		if !ok || s == "" {
			continue
		}
		v, err := strconv.ParseInt(s, 10, 64)
		if err != nil {
			return CondResult{Bad: true}
		}
		vals[k] = v
	}
	if len(vals) == 0 {
		return CondResult{OK: true}
	}
	failMatch, failNot := false, false
	if o == nil {
		if v, ok := vals["ifGenerationMatch"]; ok && v == 0 && len(vals) == 1 {
			return CondResult{OK: true}
		}
		st := []int{412}
		if _, ok := vals["ifGenerationNotMatch"]; ok {
			st = append(st, 304)
		}
		if _, ok := vals["ifMetagenerationNotMatch"]; ok {
			st = append(st, 304)
		}
		return CondResult{Statuses: st}
	}
	if v, ok := vals["ifGenerationMatch"]; ok && v != o.Generation {
		failMatch = true // includes 0 = "must not exist"
	}
	if v, ok := vals["ifGenerationNotMatch"]; ok && v == o.Generation {
		failNot = true
	}
	if v, ok := vals["ifMetagenerationMatch"]; ok && v != o.Metageneration {
		failMatch = true
	}
	if v, ok := vals["ifMetagenerationNotMatch"]; ok && v == o.Metageneration {
		failNot = true
	}
	if !failMatch && !failNot {
		return CondResult{OK: true}
	}
	var st []int
	if failMatch {
		st = append(st, 412)
	}
	if failNot {
		st = append(st, 304)
	}
	for _, v := range vals {
		if v < 0 {
			st = append(st, 400) // a failing condition with a negative number may also be refused as malformed
			break
		}
	}
	return CondResult{Statuses: st}
}

// Expect is what the API prescribes for one request.
type Expect struct {
	Statuses  []int    // allowed statuses
	Performed bool     // the mutation takes place
	View      *ObjView // expected resulting / returned object (Generation 0 = to be adopted)
	Body      []byte   // expected media body
	Ambiguous string
}

func st(codes ...int) []int { return codes }

// ExpectUpload: the object write at the end of any upload protocol.
func (m *Model) ExpectUpload(b, name string, data []byte, meta ObjMeta, conds map[string]string) Expect {
	if meta.Md5Hash != "" {
		if !validB64(meta.Md5Hash) || meta.Md5Hash != MD5b64(data) {
			return Expect{Statuses: st(400)}
		}
	}
	cr := EvalConds(m.View(b, name), conds)
	if cr.Bad {
		return Expect{Statuses: st(400)}
	}
	if !cr.OK {
		return Expect{Statuses: cr.Statuses}
	}
	v := ObjView{Name: name, Bucket: b, Size: uint64(len(data)), MD5: MD5b64(data), ContentType: meta.ContentType, Metadata: copyMap(meta.Metadata),
		CacheControl: meta.CacheControl, ContentDisposition: meta.ContentDisposition, ContentLanguage: meta.ContentLanguage, ContentEncoding: meta.ContentEncoding, Metageneration: 1}
	return Expect{Statuses: st(200), Performed: true, View: &v}
}

func validB64(s string) bool {
	_, err := b64dec(s)
	return err == nil
}

func copyMap(m map[string]string) map[string]string {
	if len(m) == 0 {
		return nil
	}
	o := map[string]string{}
	for k, v := range m {
		o[k] = v
	}
	return o
}

// CommitWrite stores a written object with the generation the implementation chose; returns an
// error text if that generation is not fresh and greater than every earlier one of that name.
func (m *Model) CommitWrite(b, name string, data []byte, v ObjView, composite bool, gen int64) string {
	key := b + "/" + name
	bad := ""
	if gen <= m.MaxGen[key] {
		bad = fmt.Sprintf("generation %d of %s is not greater than an earlier generation %d of that name", gen, key, m.MaxGen[key])
	}
	if gen > m.MaxGen[key] {
		m.MaxGen[key] = gen
	}
	if m.Buckets[b] == nil {
		m.Buckets[b] = map[string]*MObj{}
	}
	v.Generation, v.Metageneration = gen, 1
	m.Buckets[b][name] = &MObj{Content: append([]byte(nil), data...), V: v, Composite: composite}
	return bad
}

// ExpectPatch merges the supplied user-settable fields.
func (m *Model) ExpectPatch(b, name string, body []byte, conds map[string]string) Expect {
	cur := m.View(b, name)
	cr := EvalConds(cur, conds)
	if cr.Bad {
		return Expect{Statuses: st(400)}
	}
	if cur == nil {
		if cr.OK {
			return Expect{Statuses: st(404)}
		}
		return Expect{Statuses: append(st(404), cr.Statuses...)}
	}
	if !cr.OK {
		return Expect{Statuses: cr.Statuses}
	}
	var raw map[string]json.RawMessage
	if err := json.Unmarshal(body, &raw); err != nil {
		return Expect{Statuses: st(400)}
	}
	nv := *cur
	nv.Metadata = copyMap(cur.Metadata)
	for k, r := range raw {
		var s string
		switch k {
		case "contentType", "cacheControl", "contentDisposition", "contentLanguage", "contentEncoding":
			if err := json.Unmarshal(r, &s); err != nil {
				return Expect{Statuses: st(400)}
			}
			switch k {
			case "contentType":
				nv.ContentType = s
			case "cacheControl":
				nv.CacheControl = s
			case "contentDisposition":
				nv.ContentDisposition = s
			case "contentLanguage":
				nv.ContentLanguage = s
			case "contentEncoding":
				nv.ContentEncoding = s
			}
		case "metadata":
			var mm map[string]string
			if err := json.Unmarshal(r, &mm); err != nil {
				return Expect{Statuses: st(400)}
			}
			if nv.Metadata == nil {
				nv.Metadata = map[string]string{}
			}
			for kk, vv := range mm {
				nv.Metadata[kk] = vv
			}
		default:
			// intrinsic / unknown fields are not user-settable: they must be ignored
		}
	}
	if len(nv.Metadata) == 0 {
		nv.Metadata = nil
	}
	nv.Metageneration = cur.Metageneration + 1
	return Expect{Statuses: st(200), Performed: true, View: &nv}
}

func (m *Model) CommitPatch(b, name string, v ObjView) {
	o := m.Get(b, name)
	o.V = v
}

func (m *Model) ExpectDelete(b, name string, conds map[string]string) Expect {
	cur := m.View(b, name)
	cr := EvalConds(cur, conds)
	if cr.Bad {
		return Expect{Statuses: st(400)}
	}
	if cur == nil {
		if cr.OK {
			return Expect{Statuses: st(404)}
		}
		return Expect{Statuses: append(st(404), cr.Statuses...)}
	}
	if !cr.OK {
		return Expect{Statuses: cr.Statuses}
	}
	return Expect{Statuses: st(204), Performed: true}
}

func (m *Model) CommitDelete(b, name string) { delete(m.Buckets[b], name) }

type SrcSpec struct {
	Name     string
	GenMatch int64
}

func (m *Model) ExpectCompose(b, dst string, srcs []SrcSpec, dest *ObjMeta, conds map[string]string) Expect {
	if dest == nil {
		return Expect{Statuses: st(400), Ambiguous: "compose without destination resource"}
	}
	if len(srcs) == 0 {
		return Expect{Ambiguous: "compose with zero sources"}
	}
	if len(srcs) > 32 {
		return Expect{Statuses: st(400)}
	}
	cr := EvalConds(m.View(b, dst), conds)
	if cr.Bad {
		return Expect{Statuses: st(400)}
	}
	var data []byte
	for _, s := range srcs {
		o := m.View(b, s.Name)
		if o == nil {
			if !cr.OK {
				return Expect{Statuses: append(st(404), cr.Statuses...)}
			}
			return Expect{Statuses: st(404)}
		}
		if s.GenMatch != 0 && s.GenMatch != o.Generation {
			if !cr.OK {
				return Expect{Statuses: append(st(412), cr.Statuses...)}
			}
			return Expect{Statuses: st(412)}
		}
		data = append(data, m.Get(b, s.Name).Content...)
	}
	if !cr.OK {
		return Expect{Statuses: cr.Statuses}
	}
	v := ObjView{Name: dst, Bucket: b, Size: uint64(len(data)), ContentType: dest.ContentType, Metadata: copyMap(dest.Metadata),
		CacheControl: dest.CacheControl, ContentDisposition: dest.ContentDisposition, ContentLanguage: dest.ContentLanguage, ContentEncoding: dest.ContentEncoding, Metageneration: 1}
	return Expect{Statuses: st(200), Performed: true, View: &v, Body: data}
}

func (m *Model) ExpectCopy(sb, src, db, dst string) Expect {
	o := m.Get(sb, src)
	if o == nil || m.Buckets[sb] == nil {
		return Expect{Statuses: st(404)}
	}
	v := *m.View(sb, src)
	v.Metadata = copyMap(v.Metadata)
	v.Bucket, v.Name = db, dst
	v.Metageneration = 1
	v.Generation = 0
	return Expect{Statuses: st(200), Performed: true, View: &v, Body: o.Content}
}

// ---- listing ---------------------------------------------------------------------------------------

// Listing: names with the prefix in ascending bytewise order; with a delimiter a name whose
// remainder contains it is replaced by prefix + remainder up to and including its first occurrence.
func (m *Model) Listing(b, prefix, delim string) (items []string, prefixes []string) {
	seen := map[string]bool{}
	for _, n := range m.Names(b) {
		if !strings.HasPrefix(n, prefix) {
			continue
		}
		if delim != "" {
			rest := n[len(prefix):]
			if i := strings.Index(rest, delim); i >= 0 {
				p := prefix + rest[:i+len(delim)]
				if !seen[p] {
					seen[p] = true
					prefixes = append(prefixes, p)
				}
				continue
			}
		}
		items = append(items, n)
	}
	sort.Strings(prefixes)
	return
}

// ---- view comparison ------------------------------------------------------------------------------

// DiffView compares an observed object view with the expected one. wantGen 0 = do not compare.
func DiffView(got, want ObjView, compareMD5 bool) string {
	var d []string
	add := func(f string, g, w interface{}) { d = append(d, fmt.Sprintf("%s: got %v want %v", f, g, w)) }
	if got.Name != want.Name {
		add("name", got.Name, want.Name)
	}
	if got.Bucket != want.Bucket {
		add("bucket", got.Bucket, want.Bucket)
	}
	if got.Size != want.Size {
		add("size", got.Size, want.Size)
	}
	if compareMD5 && got.MD5 != want.MD5 {
		add("md5Hash", got.MD5, want.MD5)
	}
	if got.ContentType != want.ContentType {
		add("contentType", got.ContentType, want.ContentType)
	}
	if fmt.Sprint(sortedMap(got.Metadata)) != fmt.Sprint(sortedMap(want.Metadata)) {
		add("metadata", sortedMap(got.Metadata), sortedMap(want.Metadata))
	}
	if got.CacheControl != want.CacheControl {
		add("cacheControl", got.CacheControl, want.CacheControl)
	}
	if got.ContentDisposition != want.ContentDisposition {
		add("contentDisposition", got.ContentDisposition, want.ContentDisposition)
	}
	if got.ContentLanguage != want.ContentLanguage {
		add("contentLanguage", got.ContentLanguage, want.ContentLanguage)
	}
	if got.ContentEncoding != want.ContentEncoding {
		add("contentEncoding", got.ContentEncoding, want.ContentEncoding)
	}
	if want.Generation != 0 && got.Generation != want.Generation {
		add("generation", got.Generation, want.Generation)
	}
	if want.Metageneration != 0 && got.Metageneration != want.Metageneration {
		add("metageneration", got.Metageneration, want.Metageneration)
	}
	return strings.Join(d, "; ")
}

func sortedMap(m map[string]string) []string {
	var ks []string
	for k, v := range m {
		ks = append(ks, k+"="+v)
	}
	sort.Strings(ks)
	return ks
}

func (m *Model) StateString() string {
	var bs []string
	for b := range m.Buckets {
		bs = append(bs, b)
	}
	sort.Strings(bs)
	var sb strings.Builder
	for _, b := range bs {
		fmt.Fprintf(&sb, "B %s\n", b)
		for _, n := range m.Names(b) {
			v := m.View(b, n)
			// generations are compared by rank elsewhere; the canonical state abstracts them away
			vv := *v
			vv.Generation = 0
			fmt.Fprintf(&sb, " %s %x\n", vv.String(), m.Get(b, n).Content)
		}
	}
	return sb.String()
}

func (m *Model) Clone() *Model {
	n := NewModel()
	for b, os := range m.Buckets {
		n.Buckets[b] = map[string]*MObj{}
		for k, o := range os {
			c := *o
			c.Content = append([]byte(nil), o.Content...)
			c.V.Metadata = copyMap(o.V.Metadata)
			n.Buckets[b][k] = &c
		}
	}
	for k, v := range m.MaxGen {
		n.MaxGen[k] = v
	}
	return n
}

func bytesEq(a, b []byte) bool { return bytes.Equal(a, b) }

func b64dec(s string) ([]byte, error) { return base64.StdEncoding.DecodeString(s) }
