// Package fw is the check framework: shard workers, merging, evidence, replay artefacts,
// known findings and the exit-code contract.
//
//	exit 0  the property held on everything explored (KNOWN-FINDING lines possible)
//	exit 1  at least one "VIOLATION property=<id> replay=<path>" line
//	exit 2  infrastructure error (never a verdict)
package fw

import (
	"bytes"
	"crypto/sha256"
	"encoding/binary"
	"encoding/hex"
	"encoding/json"
	"flag"
	"fmt"
	"hash/fnv"
	"os"
	"os/exec"
	"path/filepath"
	"runtime"
	"runtime/pprof"
	"sort"
	"strconv"
	"strings"
	"sync"
	"time"
)

type Check struct {
	ID          string
	Level       string // "model_checking" | "fault_enumeration"
	Rule        string // how cases are enumerated / what makes one distinct
	Assumptions []string
	// Run is the worker body. It must enumerate the same space in every shard and execute only
	// the items for which c.Mine(i) holds.
	Run func(c *Ctx)
	// Replay re-executes one recorded case without the explorer; returns the violation
	// signature ("" = no violation) and a human-readable detail.
	Replay func(c *Ctx, raw json.RawMessage) (sig, detail string)
	// Shards returns the number of worker processes for a tier (0 = number of CPUs).
	Shards func(tier string) int
	// WorkerBin, if set, names the binary that runs shard i (default: this binary). Used to run the
	// non-concurrent part of a check with the plain build while the rest uses the race build.
	WorkerBin func(shard int) string
	// Budget is the internal time budget per tier (a worker that exceeds it stops and reports
	// exhaustive=false; it is never a verdict).
	Budget func(tier string) time.Duration
}

var registry = map[string]*Check{}

func Register(c *Check) { registry[c.ID] = c }

// Children are helper entry points run in a separate process ("vcheck child <name> args...").
var children = map[string]func(args []string){}

func RegisterChild(name string, fn func(args []string)) { children[name] = fn }

type Violation struct {
	Sig    string          `json:"sig"`
	Detail string          `json:"detail"`
	Case   json.RawMessage `json:"case"`
}

type ShardResult struct {
	Evals      int64                      `json:"evals"`
	Trans      int64                      `json:"trans"`
	Traces     int64                      `json:"traces"`
	States     []uint64                   `json:"-"`
	Outcomes   map[string]int64           `json:"outcomes"`
	Samples    []json.RawMessage          `json:"samples"`
	Violations []Violation                `json:"violations"`
	NViol      int64                      `json:"nviol"`
	Notes      map[string]int64           `json:"notes"`
	Incomplete []string                   `json:"incomplete"`
	Bounds     map[string]json.RawMessage `json:"bounds"`
	Internal   []string                   `json:"internal"` // infrastructure errors (flaky repro, divergence)
	StatesFile string                     `json:"states_file"`
}

type Ctx struct {
	ID       string
	Tier     string
	Shard    int
	N        int
	Seed     int64
	Deadline time.Time
	Scratch  string // private scratch dir (removed by the parent)
	res      ShardResult
	states   map[uint64]struct{}
	sigSeen  map[string]int
}

func (c *Ctx) Thorough() bool    { return c.Tier == "thorough" }
func (c *Ctx) Mine(i int64) bool { return c.N <= 1 || int(i%int64(c.N)) == c.Shard }
func (c *Ctx) Eval(n int64)      { c.res.Evals += n }
func (c *Ctx) Trans(n int64)     { c.res.Trans += n }
func (c *Ctx) Trace(n int64)     { c.res.Traces += n }
func (c *Ctx) Expired() bool     { return time.Now().After(c.Deadline) }

func Hash(parts ...string) uint64 {
	h := fnv.New64a()
	for _, p := range parts {
		h.Write([]byte(p))
		h.Write([]byte{0xff, 0})
	}
	return h.Sum64()
}

// State records a canonical state hash; returns true if it is new in this shard.
func (c *Ctx) State(h uint64) bool {
	if _, ok := c.states[h]; ok {
		return false
	}
	c.states[h] = struct{}{}
	return true
}

// Outcome counts a distinct observed outcome (guards against vacuous exploration).
func (c *Ctx) Outcome(s string) {
	if len(s) > 120 {
		s = s[:100] + fmt.Sprintf("#%x", Hash(s))
	}
	if len(c.res.Outcomes) < 5000 {
		c.res.Outcomes[s]++
	} else if _, ok := c.res.Outcomes[s]; ok {
		c.res.Outcomes[s]++
	}
}

func (c *Ctx) Note(k string, n int64) { c.res.Notes[k] += n }

func (c *Ctx) Bound(k string, v interface{}) {
	b, _ := json.Marshal(v)
	c.res.Bounds[k] = b
}

func (c *Ctx) Sample(v interface{}) {
	if len(c.res.Samples) >= 3 {
		return
	}
	b, err := json.Marshal(v)
	if err == nil {
		c.res.Samples = append(c.res.Samples, b)
	}
}

func (c *Ctx) Incomplete(reason string) {
	for _, r := range c.res.Incomplete {
		if r == reason {
			return
		}
	}
	c.res.Incomplete = append(c.res.Incomplete, reason)
}

func (c *Ctx) InternalError(msg string) { c.res.Internal = append(c.res.Internal, msg) }

// Violate records a violation. repro, if non-nil, re-executes the case from scratch and returns
// the signature it observes; it is run 5 times and every run must reproduce sig, otherwise the
// event is an infrastructure error (nondeterminism), never a VIOLATION.
func (c *Ctx) Violate(sig, detail string, cas interface{}, repro func() string) {
	c.res.NViol++
	c.sigSeen[sig]++
	if c.sigSeen[sig] > 1 && len(c.res.Violations) >= 1 {
		// keep one artefact per signature per shard
		for _, v := range c.res.Violations {
			if v.Sig == sig {
				return
			}
		}
	}
	if len(c.res.Violations) >= 40 {
		return
	}
	if repro != nil {
		for i := 0; i < 5; i++ {
			if got := repro(); got != sig {
				c.InternalError(fmt.Sprintf("violation %q did not reproduce on re-run %d (got %q): %s", sig, i+1, got, detail))
				return
			}
		}
	}
	b, err := json.Marshal(cas)
	if err != nil {
		b, _ = json.Marshal(fmt.Sprintf("%v", cas))
	}
	if len(detail) > 4000 {
		detail = detail[:4000] + "…"
	}
	c.res.Violations = append(c.res.Violations, Violation{Sig: sig, Detail: detail, Case: b})
}

func (c *Ctx) NViolations() int64 { return c.res.NViol }

// SigRecorded: an artefact for this signature has been recorded by this shard already.
func (c *Ctx) SigRecorded(sig string) bool {
	for _, v := range c.res.Violations {
		if v.Sig == sig {
			return true
		}
	}
	return false
}

// ---------------------------------------------------------------------------------------------

type knownFinding struct {
	Property string `json:"property"`
	Sig      string `json:"sig"`    // exact signature, or prefix when it ends with '*'
	Status   string `json:"status"` // "open" | "fixed"
	What     string `json:"what"`
	Commit   string `json:"commit,omitempty"`
}

func loadKnown(root string) []knownFinding {
	b, err := os.ReadFile(filepath.Join(root, "known_findings.json"))
	if err != nil {
		return nil
	}
	var f struct {
		Findings []knownFinding `json:"findings"`
	}
	if err := json.Unmarshal(b, &f); err != nil {
		fmt.Fprintf(os.Stderr, "known_findings.json: %v\n", err)
		os.Exit(2)
	}
	return f.Findings
}

func matchKnown(kf []knownFinding, id, sig string) *knownFinding {
	for i := range kf {
		k := &kf[i]
		if k.Property != id || k.Status != "open" {
			continue
		}
		if k.Sig == sig || (strings.HasSuffix(k.Sig, "*") && strings.HasPrefix(sig, strings.TrimSuffix(k.Sig, "*"))) {
			return k
		}
	}
	return nil
}

// ---------------------------------------------------------------------------------------------

func verifRoot() string {
	if r := os.Getenv("VERIF_ROOT"); r != "" {
		return r
	}
	return "/verif"
}

func Main() {
	if len(os.Args) < 2 {
		fmt.Fprintln(os.Stderr, "usage: vcheck <id> [--tier quick|thorough] [--replay file]")
		os.Exit(2)
	}
	id := os.Args[1]
	if id == "child" && len(os.Args) >= 3 {
		fn := children[os.Args[2]]
		if fn == nil {
			fmt.Fprintf(os.Stderr, "unknown child %q\n", os.Args[2])
			os.Exit(2)
		}
		fn(os.Args[3:])
		return
	}
	fs := flag.NewFlagSet("vcheck", flag.ExitOnError)
	tier := fs.String("tier", "quick", "")
	replay := fs.String("replay", "", "")
	shard := fs.String("shard", "", "i/n (worker mode)")
	out := fs.String("out", "", "worker result file")
	scratch := fs.String("scratch", "", "scratch dir")
	deadline := fs.Int64("deadline", 0, "unix ns")
	_ = fs.Parse(os.Args[2:])
	if id == "list" {
		var ids []string
		for k := range registry {
			ids = append(ids, k)
		}
		sort.Strings(ids)
		fmt.Println(strings.Join(ids, " "))
		return
	}
	ck := registry[id]
	if ck == nil {
		fmt.Fprintf(os.Stderr, "unknown check %q\n", id)
		os.Exit(2)
	}
	seed := int64(0)
	if s := os.Getenv("VERIF_SEED"); s != "" {
		seed, _ = strconv.ParseInt(s, 10, 64)
	}
	if *replay != "" {
		os.Exit(doReplay(ck, *tier, seed, *replay))
	}
	if *shard != "" {
		var i, n int
		fmt.Sscanf(*shard, "%d/%d", &i, &n)
		worker(ck, *tier, seed, i, n, *out, *scratch, *deadline)
		return
	}
	os.Exit(parent(ck, *tier, seed))
}

func newCtx(ck *Check, tier string, seed int64, i, n int, scratch string, dl time.Time) *Ctx {
	return &Ctx{ID: ck.ID, Tier: tier, Shard: i, N: n, Seed: seed, Deadline: dl, Scratch: scratch,
		states: map[uint64]struct{}{}, sigSeen: map[string]int{},
		res: ShardResult{Outcomes: map[string]int64{}, Notes: map[string]int64{}, Bounds: map[string]json.RawMessage{}}}
}

func worker(ck *Check, tier string, seed int64, i, n int, out, scratch string, deadline int64) {
	c := newCtx(ck, tier, seed, i, n, scratch, time.Unix(0, deadline))
	ck.Run(c)
	if hp := os.Getenv("VERIF_HEAPPROF"); hp != "" {
		// diagnostics: what the worker still holds at the end of its run
		runtime.GC()
		if f, err := os.Create(hp); err == nil {
			_ = pprof.WriteHeapProfile(f)
			_ = f.Close()
		}
		fmt.Fprintf(os.Stderr, "goroutines at end of run: %d\n", runtime.NumGoroutine())
		if f, err := os.Create(hp + ".goroutines"); err == nil {
			_ = pprof.Lookup("goroutine").WriteTo(f, 1)
			_ = f.Close()
		}
	}
	// states -> binary file
	sf := out + ".states"
	buf := make([]byte, 0, 8*len(c.states))
	var b8 [8]byte
	for h := range c.states {
		binary.LittleEndian.PutUint64(b8[:], h)
		buf = append(buf, b8[:]...)
	}
	if err := os.WriteFile(sf, buf, 0o666); err != nil {
		fmt.Fprintln(os.Stderr, err)
		os.Exit(2)
	}
	c.res.StatesFile = sf
	js, err := json.Marshal(&c.res)
	if err != nil {
		fmt.Fprintln(os.Stderr, err)
		os.Exit(2)
	}
	if err := os.WriteFile(out, js, 0o666); err != nil {
		fmt.Fprintln(os.Stderr, err)
		os.Exit(2)
	}
}

func scratchBase() string {
	if st, err := os.Stat("/dev/shm"); err == nil && st.IsDir() {
		return "/dev/shm"
	}
	return os.TempDir()
}

func parent(ck *Check, tier string, seed int64) int {
	start := time.Now()
	root := verifRoot()
	outRoot := root
	if o := os.Getenv("VERIF_OUT"); o != "" {
		outRoot = o // experiments (seeded-change runs): keep evidence/ and replays/ of /verif untouched
	}
	n := 0
	if ck.Shards != nil {
		n = ck.Shards(tier)
	}
	if n <= 0 {
		n = runtime.NumCPU()
	}
	budget := 75 * time.Second
	if tier == "thorough" {
		budget = 20 * time.Minute
	}
	if ck.Budget != nil {
		budget = ck.Budget(tier)
	}
	if s := os.Getenv("VERIF_BUDGET_S"); s != "" {
		if v, err := strconv.Atoi(s); err == nil {
			budget = time.Duration(v) * time.Second
		}
	}
	deadline := start.Add(budget)
	work, err := os.MkdirTemp(scratchBase(), "vcheck-"+ck.ID+"-")
	if err != nil {
		fmt.Fprintln(os.Stderr, err)
		return 2
	}
	defer os.RemoveAll(work)
	results := make([]*ShardResult, n)
	errs := make([]string, n)
	var wg sync.WaitGroup
	for i := 0; i < n; i++ {
		wg.Add(1)
		go func(i int) {
			defer wg.Done()
			out := filepath.Join(work, fmt.Sprintf("shard%d.json", i))
			scr := filepath.Join(work, fmt.Sprintf("scratch%d", i))
			_ = os.MkdirAll(scr, 0o777)
			bin := os.Args[0]
			if ck.WorkerBin != nil {
				if b := ck.WorkerBin(i); b != "" {
					bin = b
				}
			}
			cmd := exec.Command(bin, ck.ID, "--tier", tier, "--shard", fmt.Sprintf("%d/%d", i, n), "--out", out,
				"--scratch", scr, "--deadline", strconv.FormatInt(deadline.UnixNano(), 10))
			cmd.Env = append(os.Environ(), "GOMEMLIMIT=3GiB", "VERIF_SEED="+strconv.FormatInt(seed, 10),
				// race builds: reports go to a file the worker inspects after every execution (ignored by non-race builds)
				"GORACE=log_path="+filepath.Join(scr, "race.log")+" halt_on_error=0 exitcode=0 history_size=2")
			var stderr bytes.Buffer
			cmd.Stderr = &limitedWriter{w: &stderr, n: 1 << 20}
			cmd.Stdout = &limitedWriter{w: &stderr, n: 1 << 20}
			if err := cmd.Start(); err != nil {
				errs[i] = err.Error()
				return
			}
			done := make(chan error, 1)
			go func() { done <- cmd.Wait() }()
			// hard watchdog: generous multiple of the budget; never a verdict
			hard := time.Until(deadline) + budget + 5*time.Minute
			select {
			case err := <-done:
				if err != nil {
					errs[i] = fmt.Sprintf("worker %d: %v\n%s", i, err, tail(stderr.String(), 6000))
					return
				}
			case <-time.After(hard):
				_ = cmd.Process.Kill()
				errs[i] = fmt.Sprintf("worker %d: exceeded hard watchdog %v\n%s", i, hard, tail(stderr.String(), 3000))
				return
			}
			b, err := os.ReadFile(out)
			if err != nil {
				errs[i] = err.Error()
				return
			}
			var r ShardResult
			if err := json.Unmarshal(b, &r); err != nil {
				errs[i] = err.Error()
				return
			}
			if sb, err := os.ReadFile(r.StatesFile); err == nil {
				r.States = make([]uint64, len(sb)/8)
				for k := range r.States {
					r.States[k] = binary.LittleEndian.Uint64(sb[8*k:])
				}
			}
			results[i] = &r
		}(i)
	}
	wg.Wait()
	for _, e := range errs {
		if e != "" {
			fmt.Fprintf(os.Stderr, "INFRASTRUCTURE ERROR: %s\n", e)
			return 2
		}
	}
	// merge
	var m ShardResult
	m.Outcomes = map[string]int64{}
	m.Notes = map[string]int64{}
	m.Bounds = map[string]json.RawMessage{}
	states := map[uint64]struct{}{}
	for _, r := range results {
		m.Evals += r.Evals
		m.Trans += r.Trans
		m.Traces += r.Traces
		m.NViol += r.NViol
		for _, h := range r.States {
			states[h] = struct{}{}
		}
		for k, v := range r.Outcomes {
			m.Outcomes[k] += v
		}
		for k, v := range r.Notes {
			m.Notes[k] += v
		}
		for k, v := range r.Bounds {
			m.Bounds[k] = v
		}
		if len(m.Samples) < 4 {
			for _, s := range r.Samples {
				if len(m.Samples) < 4 {
					m.Samples = append(m.Samples, s)
				}
			}
		}
		m.Violations = append(m.Violations, r.Violations...)
		for _, s := range r.Incomplete {
			dup := false
			for _, t := range m.Incomplete {
				dup = dup || s == t
			}
			if !dup {
				m.Incomplete = append(m.Incomplete, s)
			}
		}
		m.Internal = append(m.Internal, r.Internal...)
	}
	if len(m.Internal) > 0 {
		for _, s := range m.Internal {
			fmt.Fprintf(os.Stderr, "INFRASTRUCTURE ERROR: %s\n", s)
		}
		return 2
	}
	// violations: known findings vs new
	kf := loadKnown(root)
	sort.SliceStable(m.Violations, func(i, j int) bool { return m.Violations[i].Sig < m.Violations[j].Sig })
	printedKnown := map[string]bool{}
	newSigs := map[string]bool{}
	nNew := 0
	exit := 0
	_ = os.MkdirAll(filepath.Join(outRoot, "replays"), 0o777)
	for _, v := range m.Violations {
		if k := matchKnown(kf, ck.ID, v.Sig); k != nil {
			if !printedKnown[k.Sig] {
				printedKnown[k.Sig] = true
				fmt.Printf("KNOWN-FINDING: property=%s %s [sig=%s]\n", ck.ID, k.What, v.Sig)
			}
			continue
		}
		exit = 1
		if newSigs[v.Sig] {
			continue
		}
		newSigs[v.Sig] = true
		nNew++
		maxArt := 8
		if v, err := strconv.Atoi(os.Getenv("VERIF_MAX_ARTEFACTS")); err == nil && v > 0 {
			maxArt = v
		}
		if nNew > maxArt {
			fmt.Printf("  (further new violation signature, no artefact written) sig=%s\n", v.Sig)
			continue
		}
		art := map[string]interface{}{"property": ck.ID, "sig": v.Sig, "detail": v.Detail, "case": v.Case, "tier": tier}
		ab, _ := json.MarshalIndent(art, "", " ")
		sum := sha256.Sum256(ab)
		path := filepath.Join(outRoot, "replays", fmt.Sprintf("%s-%s.json", ck.ID, hex.EncodeToString(sum[:6])))
		_ = os.WriteFile(path, ab, 0o666)
		fmt.Printf("VIOLATION property=%s replay=%s\n", ck.ID, path)
		fmt.Printf("  sig=%s\n  %s\n", v.Sig, strings.ReplaceAll(tail(v.Detail, 1500), "\n", "\n  "))
	}
	// evidence
	wall := time.Since(start).Seconds()
	exhaustive := len(m.Incomplete) == 0
	cov := map[string]interface{}{
		"exhaustive":        exhaustive,
		"distinct_outcomes": len(m.Outcomes),
		"rule":              ck.Rule,
		"shards":            n,
	}
	nstates := int64(len(states))
	if ck.Level == "model_checking" {
		cov["states"] = nstates
		cov["transitions"] = m.Trans
		cov["traces_validated_against_impl"] = m.Traces
		cov["executions"] = m.Evals
	} else {
		cov["evaluations"] = m.Evals
		cov["distinct_nontrivial"] = nstates
		cov["states"] = nstates
		cov["transitions"] = m.Trans
	}
	var samples []interface{}
	for _, s := range m.Samples {
		var v interface{}
		_ = json.Unmarshal(s, &v)
		samples = append(samples, v)
	}
	if len(samples) == 0 {
		samples = append(samples, "no sample recorded")
	}
	cov["samples"] = samples
	if len(m.Incomplete) > 0 {
		cov["incomplete_reasons"] = m.Incomplete
	}
	bounds := map[string]interface{}{}
	for k, v := range m.Bounds {
		var x interface{}
		_ = json.Unmarshal(v, &x)
		bounds[k] = x
	}
	cov["bounds"] = bounds
	if len(m.Notes) > 0 {
		cov["counters"] = m.Notes
	}
	// a few outcome classes, for a reader
	var oc []string
	for k := range m.Outcomes {
		oc = append(oc, k)
	}
	sort.Strings(oc)
	if len(oc) > 12 {
		oc = oc[:12]
	}
	cov["outcome_examples"] = oc
	known := []string{}
	for k := range printedKnown {
		known = append(known, k)
	}
	sort.Strings(known)
	cov["known_findings_hit"] = known
	ev := map[string]interface{}{
		"property_id": ck.ID,
		"tier":        tier,
		"seed":        seed,
		"level":       ck.Level,
		"coverage":    cov,
		"assumptions": ck.Assumptions,
		"wall_s":      wall,
		"violations":  nNew,
	}
	eb, _ := json.MarshalIndent(ev, "", " ")
	_ = os.MkdirAll(filepath.Join(outRoot, "evidence"), 0o777)
	if err := os.WriteFile(filepath.Join(outRoot, "evidence", ck.ID+".json"), eb, 0o666); err != nil {
		fmt.Fprintln(os.Stderr, err)
		return 2
	}
	fmt.Printf("%s %s: executions=%d transitions=%d states=%d outcomes=%d exhaustive=%v violations(new)=%d known=%d wall=%.1fs\n",
		ck.ID, tier, m.Evals, m.Trans, nstates, len(m.Outcomes), exhaustive, nNew, len(printedKnown), wall)
	return exit
}

func doReplay(ck *Check, tier string, seed int64, path string) int {
	b, err := os.ReadFile(path)
	if err != nil {
		fmt.Fprintln(os.Stderr, err)
		return 2
	}
	var art struct {
		Case json.RawMessage `json:"case"`
		Sig  string          `json:"sig"`
	}
	if err := json.Unmarshal(b, &art); err != nil {
		fmt.Fprintln(os.Stderr, err)
		return 2
	}
	if ck.Replay == nil {
		fmt.Fprintln(os.Stderr, "check has no replay function")
		return 2
	}
	scr, _ := os.MkdirTemp(scratchBase(), "vreplay-")
	defer os.RemoveAll(scr)
	c := newCtx(ck, tier, seed, 0, 1, scr, time.Now().Add(10*time.Minute))
	sig, detail := ck.Replay(c, art.Case)
	if sig == "" {
		fmt.Printf("replay %s: no violation\n", path)
		return 0
	}
	fmt.Printf("VIOLATION property=%s replay=%s\n  sig=%s\n  %s\n", ck.ID, path, sig, detail)
	return 1
}

type limitedWriter struct {
	mu sync.Mutex
	w  *bytes.Buffer
	n  int
}

func (l *limitedWriter) Write(p []byte) (int, error) {
	l.mu.Lock()
	defer l.mu.Unlock()
	if l.w.Len() < l.n {
		l.w.Write(p)
	} else if l.w.Len() < 2*l.n {
		// keep the tail too: drop the middle
		l.w.Write(p)
	}
	return len(p), nil
}

func tail(s string, n int) string {
	if len(s) <= n {
		return s
	}
	return "…" + s[len(s)-n:]
}

// RaceLog returns the race detector's report file content of this worker ("" if none / not a race build).
func (c *Ctx) RaceLog() string {
	ms, _ := filepath.Glob(filepath.Join(c.Scratch, "race.log.*"))
	var sb strings.Builder
	for _, m := range ms {
		if b, err := os.ReadFile(m); err == nil {
			sb.Write(b)
		}
	}
	return sb.String()
}

// Sub re-shards the context: the worker acts as shard i of n for Mine().
func (c *Ctx) Sub(i, n int) { c.Shard, c.N = i, n }
