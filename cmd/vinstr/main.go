// vinstr: source-to-source instrumentation of the fullstorydev/emulators packages, applied to
// copies of the *current* /repo sources and handed to `go build -overlay`.  /repo is never
// modified.  The rewrite is syntax-directed and generic (every occurrence of a construct):
//
//	import "sync"        -> sync  "verif/shim/vsync"   (Mutex/RWMutex are scheduler points)
//	import "math/rand"   -> rand  "verif/shim/vrand"   (enumerated environment choice)
//	import "os"          -> os    "verif/shim/vos"     (file-system calls are points / crash points)
//	time.Now/After/Since -> vtime.Now/After/Since      (virtual clock)
//	select { ... }       -> switch vchan.Select(...) { case i: <native op>; body }
//
// It also injects the build-tagged export files from hooks-src/ when the tree lacks them.
//
// usage: vinstr -repo /repo -verif /verif -out <dir>   (writes <dir>/overlay.json)
package main

import (
	"bytes"
	"encoding/json"
	"flag"
	"fmt"
	"go/ast"
	"go/format"
	"go/parser"
	"go/token"
	"os"
	"path/filepath"
	"sort"
	"strconv"
	"strings"
)

type pkgSpec struct {
	rel    string // relative to repo
	hooks  []string
	atomic bool // also redirect "sync/atomic" to the vatomic shim (every atomic operation a scheduling point)
}

var pkgs = []pkgSpec{
	{"bigtable/bttest", []string{"verif_export.go"}, false},
	{"storage/gcsemu", nil, true},
	{"storage/gcsutil", []string{"verif_export.go"}, true},
}

var importMap = map[string][2]string{
	"sync":      {"sync", "verif/shim/vsync"},
	"math/rand": {"rand", "verif/shim/vrand"},
	"os":        {"os", "verif/shim/vos"},
}

var timeFuncs = map[string]bool{"Now": true, "After": true, "Since": true}

func main() {
	repo := flag.String("repo", "/repo", "repository root")
	verif := flag.String("verif", "/verif", "verif root")
	out := flag.String("out", "", "output dir")
	extra := flag.String("extra-os", "", "comma-separated absolute source files (of dependency modules) whose \"os\" import is redirected to the vos shim as well: file-system calls made by the storage layer of goleveldb become crash points")
	target := flag.String("target", "", "directory the build sees (overlay keys); default = -repo. When it differs from -repo every source file of the instrumented packages is overlaid, so the build sees exactly the -repo tree")
	flag.Parse()
	if *target == "" {
		*target = *repo
	}
	shadow := *target != *repo
	if *out == "" {
		fatal("need -out")
	}
	overlay := map[string]string{}
	var notes []string
	for _, p := range pkgs {
		if p.atomic {
			importMap["sync/atomic"] = [2]string{"atomic", "verif/shim/vatomic"}
		} else {
			delete(importMap, "sync/atomic")
		}
		dir := filepath.Join(*repo, p.rel)
		ents, err := os.ReadDir(dir)
		if err != nil {
			fatal("readdir %s: %v", dir, err)
		}
		odir := filepath.Join(*out, strings.ReplaceAll(p.rel, "/", "_"))
		if err := os.MkdirAll(odir, 0o777); err != nil {
			fatal("%v", err)
		}
		have := map[string]bool{}
		for _, e := range ents {
			name := e.Name()
			have[name] = true
			if e.IsDir() || !strings.HasSuffix(name, ".go") || strings.HasSuffix(name, "_test.go") || strings.HasSuffix(name, ".pb.go") {
				continue
			}
			src := filepath.Join(dir, name)
			b, err := os.ReadFile(src)
			if err != nil {
				fatal("%v", err)
			}
			nb, n, changed, err := rewrite(src, b)
			if err != nil {
				fatal("rewrite %s: %v", src, err)
			}
			notes = append(notes, n...)
			if changed || shadow {
				dst := filepath.Join(odir, name)
				if err := os.WriteFile(dst, nb, 0o666); err != nil {
					fatal("%v", err)
				}
				overlay[filepath.Join(*target, p.rel, name)] = dst
			}
		}
		if shadow {
			// files that exist only in the target tree must not be compiled
			if tents, err := os.ReadDir(filepath.Join(*target, p.rel)); err == nil {
				for _, e := range tents {
					n := e.Name()
					if strings.HasSuffix(n, ".go") && !strings.HasSuffix(n, "_test.go") && !have[n] {
						overlay[filepath.Join(*target, p.rel, n)] = ""
					}
				}
			}
		}
		for _, h := range p.hooks {
			if !have[h] {
				// inject the export file from hooks-src
				srcHook := filepath.Join(*verif, "hooks-src", p.rel, h)
				b, err := os.ReadFile(srcHook)
				if err != nil {
					fatal("missing hook %s and no copy in hooks-src: %v", h, err)
				}
				nb, _, _, err := rewrite(srcHook, b)
				if err != nil {
					fatal("rewrite %s: %v", srcHook, err)
				}
				dst := filepath.Join(odir, h)
				if err := os.WriteFile(dst, nb, 0o666); err != nil {
					fatal("%v", err)
				}
				overlay[filepath.Join(*target, p.rel, h)] = dst
				notes = append(notes, "injected "+p.rel+"/"+h)
			}
		}
	}
	if *extra != "" {
		// Files of a dependency module cannot import packages of this module; the seam is a hook variable
		// and wrapper functions ADDED to the dependency's own package (vhook_verif.go), and the calls
		// os.OpenFile / os.Rename / os.Remove / os.MkdirAll in the listed files are redirected to the wrappers.
		odir := filepath.Join(*out, "extra")
		if err := os.MkdirAll(odir, 0o777); err != nil {
			fatal("%v", err)
		}
		var pkgDir, pkgName string
		for i, src := range strings.Split(*extra, ",") {
			b, err := os.ReadFile(src)
			if err != nil {
				fatal("%v", err)
			}
			fset := token.NewFileSet()
			f, err := parser.ParseFile(fset, src, b, parser.PackageClauseOnly)
			if err != nil {
				fatal("%v", err)
			}
			pkgDir, pkgName = filepath.Dir(src), f.Name.Name
			txt := string(b)
			for _, fn := range []string{"OpenFile", "Rename", "Remove", "MkdirAll"} {
				txt = strings.ReplaceAll(txt, "os."+fn+"(", "verifOS"+fn+"(")
			}
			dst := filepath.Join(odir, fmt.Sprintf("%d_%s", i, filepath.Base(src)))
			if err := os.WriteFile(dst, []byte(txt), 0o666); err != nil {
				fatal("%v", err)
			}
			overlay[src] = dst
		}
		_ = pkgName
		hook := `

// VerifHook is called before ("pre") and after ("post") each name-space changing file-system call of this package
// (added by verif/cmd/vinstr through the build overlay; not part of the module).
var VerifHook func(phase, op, path string)

func verifOSPre(op, p string) {
	if h := VerifHook; h != nil {
		h("pre", op, p)
	}
}

func verifOSPost(op, p string) {
	if h := VerifHook; h != nil {
		h("post", op, p)
	}
}

func verifOSOpenFile(name string, flag int, perm os.FileMode) (*os.File, error) {
	op := "OpenFile"
	if flag&os.O_CREATE != 0 {
		op = "OpenFile+create"
	}
	verifOSPre(op, name)
	f, err := os.OpenFile(name, flag, perm)
	verifOSPost(op, name)
	return f, err
}

func verifOSRename(a, b string) error {
	verifOSPre("Rename", b)
	err := os.Rename(a, b)
	verifOSPost("Rename", b)
	return err
}

func verifOSRemove(p string) error {
	verifOSPre("Remove", p)
	err := os.Remove(p)
	verifOSPost("Remove", p)
	return err
}

func verifOSMkdirAll(p string, perm os.FileMode) error {
	verifOSPre("MkdirAll", p)
	err := os.MkdirAll(p, perm)
	verifOSPost("MkdirAll", p)
	return err
}

// Write: a large write to a file of the database (a journal block, a table block) is a crash point before it and in
// its middle - the first half is on disk, the second is not: a torn write. Small writes are left alone (they would
// add two crash points to every row write of every program).
func (fw *fileWrap) Write(p []byte) (int, error) {
	if len(p) < 8192 || VerifHook == nil {
		return fw.File.Write(p)
	}
	name := fw.File.Name()
	verifOSPre("Write", name)
	h := len(p) / 2
	n, err := fw.File.Write(p[:h])
	if err != nil {
		return n, err
	}
	verifOSPre("Write+torn", name)
	m, err := fw.File.Write(p[h:])
	return n + m, err
}
`
		// (a file ADDED to a package of the module cache is not picked up by the overlay: the definitions are
		// appended to the first replaced file, which imports "os" already)
		first := filepath.Join(odir, "0_"+filepath.Base(strings.Split(*extra, ",")[0]))
		b, err := os.ReadFile(first)
		if err != nil {
			fatal("%v", err)
		}
		if err := os.WriteFile(first, append(b, []byte(hook)...), 0o666); err != nil {
			fatal("%v", err)
		}
		_ = pkgDir
	}
	js, _ := json.MarshalIndent(map[string]interface{}{"Replace": overlay}, "", " ")
	if err := os.WriteFile(filepath.Join(*out, "overlay.json"), js, 0o666); err != nil {
		fatal("%v", err)
	}
	sort.Strings(notes)
	_ = os.WriteFile(filepath.Join(*out, "vinstr.notes"), []byte(strings.Join(notes, "\n")+"\n"), 0o666)
}

func fatal(f string, a ...interface{}) {
	fmt.Fprintf(os.Stderr, "vinstr: "+f+"\n", a...)
	os.Exit(2)
}

func rewrite(path string, src []byte) ([]byte, []string, bool, error) {
	fset := token.NewFileSet()
	f, err := parser.ParseFile(fset, path, src, parser.ParseComments)
	if err != nil {
		return nil, nil, false, err
	}
	var notes []string
	changed := false
	// local names of imported packages
	names := map[string]string{} // import path -> local name
	for _, im := range f.Imports {
		p, _ := strconv.Unquote(im.Path.Value)
		ln := filepath.Base(p)
		if im.Name != nil {
			ln = im.Name.Name
		}
		names[p] = ln
	}
	for _, im := range f.Imports {
		p, _ := strconv.Unquote(im.Path.Value)
		if m, ok := importMap[p]; ok {
			ln := m[0]
			if im.Name != nil {
				ln = im.Name.Name
			}
			im.Name = ast.NewIdent(ln)
			im.Path.Value = strconv.Quote(m[1])
			changed = true
		}
	}
	needVtime, needVchan := false, false
	_ = needVchan
	timeName := names["time"]
	// time.X -> vtime.X
	if timeName != "" && timeName != "_" && timeName != "." {
		ast.Inspect(f, func(n ast.Node) bool {
			se, ok := n.(*ast.SelectorExpr)
			if !ok {
				return true
			}
			id, ok := se.X.(*ast.Ident)
			if !ok || id.Name != timeName || id.Obj != nil {
				return true
			}
			if timeFuncs[se.Sel.Name] {
				id.Name = "vtime__"
				needVtime = true
			} else if se.Sel.Name == "NewTimer" || se.Sel.Name == "NewTicker" || se.Sel.Name == "AfterFunc" || se.Sel.Name == "Tick" || se.Sel.Name == "Sleep" {
				notes = append(notes, fmt.Sprintf("%s: time.%s left uncontrolled", fset.Position(se.Pos()), se.Sel.Name))
			}
			return true
		})
	}
	// go statements and statement-level channel operations (outside select)
	needVgo := false
	bareCounter := 0
	handled := map[ast.Node]bool{} // statements already wrapped (the walk descends into the replacement)
	isRecv := func(e ast.Expr) (ast.Expr, bool) {
		if u, ok := e.(*ast.UnaryExpr); ok && u.Op == token.ARROW {
			return u.X, true
		}
		return nil, false
	}
	waitCall := func(dir string, ch ast.Expr) ast.Stmt {
		return &ast.ExprStmt{X: &ast.CallExpr{Fun: &ast.SelectorExpr{X: ast.NewIdent("vchan__"), Sel: ast.NewIdent("Wait")},
			Args: []ast.Expr{&ast.CallExpr{Fun: &ast.SelectorExpr{X: ast.NewIdent("vchan__"), Sel: ast.NewIdent(dir)}, Args: []ast.Expr{ch}}}}}
	}
	rewriteBlocks(f, func(list []ast.Stmt) []ast.Stmt {
		for i := 0; i < len(list); i++ {
			s := list[i]
			var lbl *ast.LabeledStmt
			inner := s
			if l, ok := s.(*ast.LabeledStmt); ok {
				lbl = l
				inner = l.Stmt
			}
			var repl ast.Stmt
			if handled[inner] {
				continue
			}
			handled[inner] = true
			switch x := inner.(type) {
			case *ast.GoStmt:
				// go f(a, b)  =>  { v0 := a; v1 := b; vgo__.Go(func() { f(v0, v1) }) }   (arguments are evaluated by the go statement)
				var pre []ast.Stmt
				call := *x.Call
				call.Args = append([]ast.Expr(nil), x.Call.Args...)
				for ai, a := range call.Args {
					if _, isLit := a.(*ast.BasicLit); isLit {
						continue
					}
					if ai == len(call.Args)-1 && call.Ellipsis.IsValid() {
						// keep "xs..." as it is, evaluated once
					}
					tmp := fmt.Sprintf("vgo__%d_%d", bareCounter, ai)
					pre = append(pre, &ast.AssignStmt{Lhs: []ast.Expr{ast.NewIdent(tmp)}, Tok: token.DEFINE, Rhs: []ast.Expr{a}})
					call.Args[ai] = ast.NewIdent(tmp)
				}
				bareCounter++
				fn := &ast.FuncLit{Type: &ast.FuncType{Params: &ast.FieldList{}}, Body: &ast.BlockStmt{List: []ast.Stmt{&ast.ExprStmt{X: &call}}}}
				goCall := &ast.ExprStmt{X: &ast.CallExpr{Fun: &ast.SelectorExpr{X: ast.NewIdent("vgo__"), Sel: ast.NewIdent("Go")}, Args: []ast.Expr{fn}}}
				repl = &ast.BlockStmt{List: append(pre, goCall)}
				needVgo = true
			case *ast.SendStmt:
				repl = &ast.BlockStmt{List: []ast.Stmt{waitCall("Send", x.Chan), x}}
				needVchan = true
			case *ast.ExprStmt:
				if ch, ok := isRecv(x.X); ok {
					repl = &ast.BlockStmt{List: []ast.Stmt{waitCall("Recv", ch), x}}
					needVchan = true
				}
			case *ast.AssignStmt:
				if len(x.Rhs) == 1 {
					if ch, ok := isRecv(x.Rhs[0]); ok {
						// the wait goes in front, the assignment itself must stay in this scope
						if lbl != nil {
							lbl.Stmt = waitCall("Recv", ch)
							list = append(list[:i+1], append([]ast.Stmt{x}, list[i+1:]...)...)
						} else {
							list = append(list[:i], append([]ast.Stmt{waitCall("Recv", ch)}, list[i:]...)...)
						}
						needVchan = true
						i++ // skip the statement that was shifted by the insertion
					}
				}
			}
			if repl != nil {
				if lbl != nil {
					lbl.Stmt = repl
				} else {
					list[i] = repl
				}
			}
		}
		return list
	})
	// select statements
	var rerr error
	selCounter := 0
	rewriteBlocks(f, func(list []ast.Stmt) []ast.Stmt {
		for i, s := range list {
			var lbl *ast.LabeledStmt
			inner := s
			if l, ok := s.(*ast.LabeledStmt); ok {
				lbl = l
				inner = l.Stmt
			}
			sel, ok := inner.(*ast.SelectStmt)
			if !ok {
				continue
			}
			pre, sw, err := rewriteSelect(fset, sel, selCounter)
			selCounter++
			if err != nil {
				rerr = err
				continue
			}
			needVchan = true
			var swStmt ast.Stmt = sw
			if lbl != nil {
				lbl.Stmt = sw
				swStmt = lbl
			}
			list[i] = &ast.BlockStmt{List: append(pre, swStmt)}
		}
		return list
	})
	if rerr != nil {
		return nil, nil, false, rerr
	}
	if needVtime || needVchan || needVgo {
		changed = true
		add := func(name, path string) {
			spec := &ast.ImportSpec{Name: ast.NewIdent(name), Path: &ast.BasicLit{Kind: token.STRING, Value: strconv.Quote(path)}}
			gd := &ast.GenDecl{Tok: token.IMPORT, Specs: []ast.Spec{spec}}
			// insert after the last import decl
			idx := 0
			for i, d := range f.Decls {
				if g, ok := d.(*ast.GenDecl); ok && g.Tok == token.IMPORT {
					idx = i + 1
				}
			}
			f.Decls = append(f.Decls[:idx], append([]ast.Decl{gd}, f.Decls[idx:]...)...)
		}
		if needVtime {
			add("vtime__", "verif/shim/vtime")
		}
		if needVchan {
			add("vchan__", "verif/shim/vchan")
		}
		if needVgo {
			add("vgo__", "verif/shim/vgo")
		}
	}
	if !changed {
		return src, notes, false, nil
	}
	var buf bytes.Buffer
	if err := format.Node(&buf, fset, f); err != nil {
		return nil, nil, false, err
	}
	return buf.Bytes(), notes, true, nil
}

// rewriteBlocks calls fn on every statement list in the file.
func rewriteBlocks(f *ast.File, fn func([]ast.Stmt) []ast.Stmt) {
	ast.Inspect(f, func(n ast.Node) bool {
		switch x := n.(type) {
		case *ast.BlockStmt:
			x.List = fn(x.List)
		case *ast.CaseClause:
			x.Body = fn(x.Body)
		case *ast.CommClause:
			x.Body = fn(x.Body)
		}
		return true
	})
}

// select { case ch <- v: A; case x := <-ch2: B; default: C }
//
//	=>
//
//	switch vchan__.Select(hasDefault, vchan__.Send(ch), vchan__.Recv(ch2)) {
//	case 0: ch <- v; A
//	case 1: x := <-ch2; B
//	default: C        (index -1)
//	}
func rewriteSelect(fset *token.FileSet, sel *ast.SelectStmt, n int) ([]ast.Stmt, *ast.SwitchStmt, error) {
	var args []ast.Expr
	var pre []ast.Stmt
	hasDefault := false
	sw := &ast.SwitchStmt{Switch: sel.Select, Body: &ast.BlockStmt{Lbrace: sel.Body.Lbrace, Rbrace: sel.Body.Rbrace}}
	idx := 0
	for _, c := range sel.Body.List {
		cc := c.(*ast.CommClause)
		if cc.Comm == nil {
			hasDefault = true
			sw.Body.List = append(sw.Body.List, &ast.CaseClause{Case: cc.Case, Colon: cc.Colon, Body: cc.Body})
			continue
		}
		var chSlot *ast.Expr
		dir := ""
		switch s := cc.Comm.(type) {
		case *ast.SendStmt:
			chSlot, dir = &s.Chan, "Send"
		case *ast.ExprStmt:
			if u, ok := s.X.(*ast.UnaryExpr); ok && u.Op == token.ARROW {
				chSlot, dir = &u.X, "Recv"
			}
		case *ast.AssignStmt:
			if len(s.Rhs) == 1 {
				if u, ok := s.Rhs[0].(*ast.UnaryExpr); ok && u.Op == token.ARROW {
					chSlot, dir = &u.X, "Recv"
				}
			}
		}
		if dir == "" {
			return nil, nil, fmt.Errorf("%s: unsupported select case", fset.Position(cc.Pos()))
		}
		// evaluate the channel expression exactly once, as select does
		tmp := fmt.Sprintf("vch__%d_%d", n, idx)
		pre = append(pre, &ast.AssignStmt{Lhs: []ast.Expr{ast.NewIdent(tmp)}, Tok: token.DEFINE, Rhs: []ast.Expr{*chSlot}})
		*chSlot = ast.NewIdent(tmp)
		args = append(args, &ast.CallExpr{Fun: &ast.SelectorExpr{X: ast.NewIdent("vchan__"), Sel: ast.NewIdent(dir)}, Args: []ast.Expr{ast.NewIdent(tmp)}})
		body := append([]ast.Stmt{cc.Comm}, cc.Body...)
		sw.Body.List = append(sw.Body.List, &ast.CaseClause{
			Case: cc.Case, Colon: cc.Colon,
			List: []ast.Expr{&ast.BasicLit{Kind: token.INT, Value: strconv.Itoa(idx)}},
			Body: body,
		})
		idx++
	}
	hd := "false"
	if hasDefault {
		hd = "true"
	} else {
		// keeps the statement "terminating" exactly when the select was (a switch needs a default for that)
		sw.Body.List = append(sw.Body.List, &ast.CaseClause{Body: []ast.Stmt{&ast.ExprStmt{X: &ast.CallExpr{
			Fun: ast.NewIdent("panic"), Args: []ast.Expr{&ast.BasicLit{Kind: token.STRING, Value: strconv.Quote("verif: select resolved to no case")}}}}}})
	}
	sw.Tag = &ast.CallExpr{
		Fun:  &ast.SelectorExpr{X: ast.NewIdent("vchan__"), Sel: ast.NewIdent("Select")},
		Args: append([]ast.Expr{ast.NewIdent(hd)}, args...),
	}
	return pre, sw, nil
}
