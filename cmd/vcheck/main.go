// vcheck: one driver binary for all checks (see fw.Main for the command line).
package main

import (
	_ "verif/checks"
	"verif/fw"
)

func main() { fw.Main() }
