package checks

import (
	"encoding/json"
	"fmt"
	"math"
	"strings"
	"time"

	"verif/bt"
	"verif/fw"
)

// C01 — Bigtable: reads reflect exactly the mutations applied (data-model equivalence).

const tblT = "projects/p/instances/i/tables/t"

func setupT() []bt.Op {
	return []bt.Op{{Kind: "CreateTable", Parent: "projects/p/instances/i", TableID: "t", Fams: map[string]*bt.GC{"f": nil, "g": nil}}}
}

func mset(f, q string, ts int64, v string) bt.Mut {
	return bt.Mut{Kind: "set", Fam: f, Qual: []byte(q), TS: ts, Val: []byte(v)}
}
func mdelcol(f, q string) bt.Mut { return bt.Mut{Kind: "delcol", Fam: f, Qual: []byte(q)} }
func mdelcolr(f, q string, t0, t1 int64) bt.Mut {
	return bt.Mut{Kind: "delcol", Fam: f, Qual: []byte(q), HasRange: true, T0: t0, T1: t1}
}
func mdelfam(f string) bt.Mut { return bt.Mut{Kind: "delfam", Fam: f} }

// c01Core: one representative per code shortcut, simplest first.
func c01Core() []bt.Mut {
	return []bt.Mut{
		mset("f", "a", 1000, "x"),
		mset("f", "a", 1000, "y"),
		mset("f", "a", 2000, "x"),
		mset("f", "", 0, "x"),
		mset("g", "a", -1, "z"),
		mset("f", "a", bt.MaxTS, "m"),
		mset("f", "b", 3000, ""),
		mdelcol("f", "a"),
		mdelcolr("f", "a", 1000, 2000),
		mdelcolr("f", "a", 0, 1000),
		mdelcolr("f", "a", 2000, 0),
		mdelcol("g", "a"),
		mdelfam("f"),
		mdelfam("g"),
		{Kind: "delrow"},
		// invalid ones: must be rejected and leave the state unchanged
		mset("nofam", "a", 1000, "x"),
		mset("f", "a", -2, "x"),
		mset("f", "a", 1500, "x"),
		mset("f", "a", math.MaxInt64, "x"),
		mdelcolr("f", "a", 1000, 1000),
		mdelcolr("f", "a", 2000, 1000),
		mdelcolr("f", "a", 1500, 0),
		mdelcolr("f", "zz", 2000, 1000), // inverted range on an absent column
		mdelcol("nofam", "a"),
		mdelfam("nofam"),
		{Kind: "none"},
	}
}

// c01Catalogue: the full product of boundary arguments (used from every shallow BFS state).
func c01Catalogue() []bt.Mut {
	var out []bt.Mut
	tss := []int64{0, 1000, 2000, bt.MaxTS, -1, -2, 1500, math.MaxInt64, bt.MaxTS - 1000}
	for _, f := range []string{"f", "g", "nofam"} {
		for _, q := range []string{"", "a", "\x00"} {
			for _, ts := range tss {
				for _, v := range []string{"", "x", "y"} {
					out = append(out, mset(f, q, ts, v))
				}
			}
			out = append(out, mdelcol(f, q))
			rs := []int64{0, 1000, 2000, 3000, 1500, -1000, bt.MaxTS}
			for _, t0 := range rs {
				for _, t1 := range rs {
					out = append(out, mdelcolr(f, q, t0, t1))
				}
			}
		}
		out = append(out, mdelfam(f))
	}
	out = append(out, bt.Mut{Kind: "delrow"}, bt.Mut{Kind: "none"})
	return out
}

func c01Tag(o *bt.Op) string {
	mt := func(ms []bt.Mut) string {
		s := ""
		for _, m := range ms {
			t := m.Kind
			switch {
			case m.Kind == "set" && m.Fam == "nofam":
				t = "set-unknown-family"
			case m.Kind == "set" && (m.TS < -1 || m.TS%1000 != 0 && m.TS != -1 || m.TS > bt.MaxTS):
				t = "set-invalid-ts"
			case m.Kind == "delcol" && m.Fam == "nofam":
				t = "delcol-unknown-family"
			case m.Kind == "delcol" && m.HasRange && (m.T0 < 0 || m.T0%1000 != 0 || m.T1 < 0 || m.T1%1000 != 0 || m.T0 > bt.MaxTS || m.T1 > bt.MaxTS):
				t = "delcol-invalid-ts"
			case m.Kind == "delcol" && m.HasRange && m.T1 != 0 && m.T0 >= m.T1:
				t = "delcol-inverted"
			case m.Kind == "delfam" && m.Fam == "nofam":
				t = "delfam-unknown-family"
			}
			if s != "" {
				s += "+"
			}
			s += t
		}
		return s
	}
	switch o.Kind {
	case "MutateRow":
		return "MutateRow[" + mt(o.Muts) + "]"
	case "MutateRows":
		s := "MutateRows["
		for i, e := range o.Entries {
			if i > 0 {
				s += "|"
			}
			s += mt(e.Muts)
		}
		return s + "]"
	}
	return o.Kind
}

func init() {
	fw.Register(&fw.Check{
		ID:    "C01",
		Level: "model_checking",
		Rule: "explicit-state BFS over request sequences (single-mutation MutateRow requests + clock changes) with deduplication on (model state, raw stored rows); " +
			"from every state up to a shallow depth additionally the full boundary catalogue of single mutations on 4 adversarial keys and all ordered pairs of the core mutations via MutateRow and MutateRows; " +
			"after every request the response and a complete unfiltered read are compared with the reference model; a state is distinct by hash of (model state, raw dump)",
		Assumptions: []string{
			"reference model bt/model.go is the reading of the Bigtable data model (DESIGN.md §7)",
			"family order inside a row is unspecified and compared as a set; any non-OK status counts as rejection",
			"values/keys outside the alphabets and sequences longer than the depth bound are not covered",
		},
		Run:    runC01,
		Replay: replayC01,
		Budget: func(tier string) time.Duration {
			if tier == "thorough" {
				return 15 * time.Minute
			}
			return 60 * time.Second
		},
	})
}

func replayC01(c *fw.Ctx, raw json.RawMessage) (string, string) {
	var sc seqCase
	if err := json.Unmarshal(raw, &sc); err != nil {
		return "bad-replay", err.Error()
	}
	return replaySeq(c, "C01", sc, c01Tag)
}

func runC01(c *fw.Ctx) {
	core := c01Core()
	keys := []string{"a", "a\x00"}
	var alpha []bt.Op
	for _, m := range core {
		for _, k := range keys {
			alpha = append(alpha, bt.Op{Kind: "MutateRow", Table: tblT, Key: []byte(k), Muts: []bt.Mut{m}})
		}
	}
	alpha = append(alpha, bt.Op{Kind: "SetClock", Clock: 1999}, bt.Op{Kind: "SetClock", Clock: 2500})

	type plan struct {
		engine       string
		depth        int
		productDepth int // product passes from every state up to this depth
	}
	plans := []plan{{"btree", 3, 1}, {"mem", 2, 1}}
	if c.Thorough() {
		plans = []plan{{"btree", 4, 2}, {"mem", 3, 1}, {"disk", 2, 0}}
	}
	tcore := []bt.Mut{mset("f", "a", 1000, "x"), mset("f", "a", 2000, "y"), mset("f", "b", 3000, ""), mset("g", "a", -1, "z"),
		mdelcol("f", "a"), mdelcolr("f", "a", 1000, 2000), mdelfam("f"), {Kind: "delrow"}, mset("nofam", "a", 1000, "x")}
	cat := c01Catalogue()
	// (two long keys: 127 / 128 bytes is where a length prefix grows to two bytes, 300 is well beyond)
	catKeys := []string{"a", "a\x00", "ab", "\xff", strings.Repeat("k", 127), strings.Repeat("k", 128), strings.Repeat("L", 300)}
	for _, p := range plans {
		p := p
		var item int64
		b := &btSeq{ID: "C01", Engine: p.engine, Setup: setupT(), Alphabet: alpha, Depth: p.depth, Dedup: true, Tag: c01Tag}
		seenProd := map[uint64]bool{}
		b.AtState = func(seq []int, depth int) {
			if depth > p.productDepth {
				return
			}
			base := b.ops(seq)
			// dedup product passes on the model state reached
			_, _, _, h := runSeq(c, p.engine, b.Setup, base, false)
			if seenProd[h] {
				return
			}
			seenProd[h] = true
			try := func(o bt.Op) {
				item++
				if depth <= btShardDepth && !c.Mine(item) {
					return // the root state is visited by every shard: split its product
				}
				ops := append(append([]bt.Op(nil), base...), o)
				m, cl, at, hh := runSeq(c, p.engine, b.Setup, ops, false)
				c.Eval(1)
				c.Trace(1)
				c.Trans(1)
				if m != "" {
					t := "setup"
					if at >= 0 {
						t = c01Tag(&ops[at])
					}
					sc := seqCase{Engine: p.engine, Setup: b.Setup, Ops: ops}
					c.Violate(fmt.Sprintf("C01:%s:%s:%s", p.engine, cl, t), m+"\n  sequence: "+bt.OpsString(ops), sc, func() string {
						s, _ := replaySeq(c, "C01", sc, c01Tag)
						return s
					})
					return
				}
				if cl != "ambiguous" {
					c.State(hh)
				}
			}
			for _, k := range catKeys {
				for _, m := range cat {
					if c.Expired() {
						c.Incomplete("time budget reached in catalogue pass")
						return
					}
					try(bt.Op{Kind: "MutateRow", Table: tblT, Key: []byte(k), Muts: []bt.Mut{m}})
				}
			}
			// ordered pairs of core mutations: one request (MutateRow), and MutateRows with the
			// pair in one entry / split over two entries on the same row / on two rows
			for _, m1 := range core {
				for _, m2 := range core {
					if c.Expired() {
						c.Incomplete("time budget reached in pair pass")
						return
					}
					try(bt.Op{Kind: "MutateRow", Table: tblT, Key: []byte("a"), Muts: []bt.Mut{m1, m2}})
					try(bt.Op{Kind: "MutateRows", Table: tblT, Entries: []bt.Entry{{Key: []byte("a"), Muts: []bt.Mut{m1, m2}}}})
					try(bt.Op{Kind: "MutateRows", Table: tblT, Entries: []bt.Entry{{Key: []byte("a"), Muts: []bt.Mut{m1}}, {Key: []byte("a"), Muts: []bt.Mut{m2}}}})
					try(bt.Op{Kind: "MutateRows", Table: tblT, Entries: []bt.Entry{{Key: []byte("a"), Muts: []bt.Mut{m1}}, {Key: []byte("a\x00"), Muts: []bt.Mut{m2}}}})
				}
			}
			// ordered triples of a smaller core in one request / one entry: a write before and after a
			// delete of the row, family or column, a rejected mutation in every position
			if p.engine != "btree" && depth > 0 {
				return
			}
			if depth == 0 {
				// requests far longer than any per-request buffer is likely to be sized for: one MutateRow of 600
				// mutations (writes to 200 columns at three timestamps, every fifth a delete of an earlier column), one
				// MutateRows of 300 entries over three rows
				q := func(i int) string { return fmt.Sprintf("q%03d", i%200) }
				var ms []bt.Mut
				for i := 0; i < 600; i++ {
					if i%5 == 4 {
						ms = append(ms, mdelcol("f", q(i-2)))
					} else {
						ms = append(ms, mset("f", q(i), int64(1000+1000*(i%3)), fmt.Sprintf("v%d", i)))
					}
				}
				try(bt.Op{Kind: "MutateRow", Table: tblT, Key: []byte("a"), Muts: ms})
				var es []bt.Entry
				for i := 0; i < 300; i++ {
					es = append(es, bt.Entry{Key: []byte([]string{"a", "a\x00", "ab"}[i%3]), Muts: []bt.Mut{mset("g", q(i), 1000, fmt.Sprintf("e%d", i)), mdelcol("g", q(i+1))}})
				}
				try(bt.Op{Kind: "MutateRows", Table: tblT, Entries: es})
			}
			for _, m1 := range tcore {
				for _, m2 := range tcore {
					for _, m3 := range tcore {
						if c.Expired() {
							c.Incomplete("time budget reached in triple pass")
							return
						}
						try(bt.Op{Kind: "MutateRow", Table: tblT, Key: []byte("a"), Muts: []bt.Mut{m1, m2, m3}})
						try(bt.Op{Kind: "MutateRows", Table: tblT, Entries: []bt.Entry{{Key: []byte("a\x00"), Muts: []bt.Mut{m1}}, {Key: []byte("a"), Muts: []bt.Mut{m1, m2, m3}}}})
					}
				}
			}
		}
		b.Run(c)
		c.Bound(p.engine+"_bfs_depth", p.depth)
		c.Bound(p.engine+"_product_from_depth", p.productDepth)
	}
	c.Bound("alphabet_requests", len(alpha))
	c.Bound("catalogue_mutations", len(cat)*len(catKeys))
	c.Bound("core_pairs", len(core)*len(core)*4)
	c.Bound("core_triples", len(tcore)*len(tcore)*len(tcore)*2)
}
