package checks

import (
	"encoding/json"
	"fmt"
	"os"
	"time"

	"verif/fw"
)

// C20 — no request or request mix can crash or wedge the service.

func init() {
	fw.Register(&fw.Check{
		ID:    "C20",
		Level: "model_checking",
		Rule: "(a) input catalogue, bounded-exhaustive: for every RPC / endpoint a valid base request and every single and pairwise perturbation of a finite catalogue (fields dropped / empty / negative / huge / wrong type, oneofs unset, unknown names and ids, malformed URLs, every truncation point of JSON, multipart and batch bodies, bad ranges / content types / boundaries, gzip flags on non-gzip data, stream Send failures), each run as a one-thread controlled execution so that a lock left held or unlocked twice is seen as deadlock / panic; " +
			"(b) request mixes: every unordered pair (selected triples) of admin and data requests on one table / one bucket under the controlled scheduler, preemption-bounded, built with the race detector and a hand-off that creates no happens-before edge, so that every explored schedule is judged by the program's own synchronisation (incl. gzip-compressed requests whose bodies arrive slowly, one of them refused before its body is read; two requests of ONE resumable session in flight at once, the session then asked what it has received and completed; first writes into a bucket racing its creation; clients that go away while waiting for a lock); violation = panic, deadlock, fatal runtime error, malformed response, batch part differing from the stand-alone request, lost bystander data, or a race report; " +
			"(c) admin/data mixes on the table registry (create / delete / re-create a table, schema changes, clears racing writes and reads): every interleaving within the preemption bound, the recorded history plus closing observations (ListTables, GetTable, full reads) must be linearizable against the reference model - data acknowledged before or during the mix is intact afterwards; the emulator stopped (Server.Close) while requests are in flight must not deadlock; on the disk engine the closing observations are repeated after a stop + start",
		Assumptions: []string{"the race detector reports each distinct race once per worker process (first schedule that exhibits it)", "responses from the transport-level gzip wrapper may be plain text; API-level errors must carry a JSON error body"},
		Run:         runC20,
		Replay:      replayC20,
		Shards:      func(string) int { return 16 },
		// shards 0..4: input catalogue on the plain build; shards 5..15: request mixes on the race build
		WorkerBin: func(i int) string {
			if i < c20InputShards {
				return os.Getenv("VERIF_PLAIN_BIN")
			}
			return ""
		},
		Budget: schedBudget(120*time.Second, 25*time.Minute),
	})
}

func replayC20(c *fw.Ctx, raw json.RawMessage) (string, string) {
	var probe struct {
		Scenario string `json:"scenario"`
	}
	_ = json.Unmarshal(raw, &probe)
	if probe.Scenario != "" {
		var cs schedCase
		if err := json.Unmarshal(raw, &cs); err != nil {
			return "bad-replay", err.Error()
		}
		var eng struct {
			Engine string `json:"engine"`
		}
		if json.Unmarshal(cs.Param, &eng); eng.Engine != "" {
			// a linearizability scenario of the admin/data mixes (c20lin.go)
			var lp c06Param
			if err := json.Unmarshal(cs.Param, &lp); err != nil {
				return "bad-replay", err.Error()
			}
			_, class, detail, _ := runSchedOnce(c06Scenario(c, lp), cs.Choices)
			if class == "" {
				return "", ""
			}
			return fmt.Sprintf("C20:%s:%s", cs.Scenario, class), detail
		}
		var p c20Param
		if err := json.Unmarshal(cs.Param, &p); err != nil {
			return "bad-replay", err.Error()
		}
		before := len(c.RaceLog())
		_, class, detail, _ := runSchedOnce(c20Scenario(c, p), cs.Choices)
		if log := c.RaceLog(); len(log) > before {
			return "C20:race", log[before:]
		}
		if class == "" {
			return "", ""
		}
		return fmt.Sprintf("C20:%s:%s", cs.Scenario, class), detail
	}
	return replayC20Input(c, raw)
}

const c20InputShards = 5

func runC20(c *fw.Ctx) {
	var item int64
	if c.N == 16 {
		if c.Shard < c20InputShards {
			c.Sub(c.Shard, c20InputShards)
			runC20Inputs(c, &item)
			runC20Lin(c, &item)
		} else {
			c.Sub(c.Shard-c20InputShards, 16-c20InputShards)
			runC20Race(c, &item)
		}
		return
	}
	runC20Inputs(c, &item)
	runC20Lin(c, &item)
	runC20Race(c, &item)
}
