package checks

import (
	"encoding/json"
	"fmt"
	"strings"
	"time"

	btpb "cloud.google.com/go/bigtable/apiv2/bigtablepb"
	"github.com/fullstorydev/emulators/bigtable/bttest"
	"google.golang.org/protobuf/proto"

	"verif/bt"
	"verif/fw"
	"verif/sched"
	"verif/shim/vtime"
)

// C16 — garbage collection removes exactly what the GC rules condemn.

const (
	c16Clock  = int64(10_000_000) // server clock, µs
	c16Cutoff = c16Clock - 1_000_000
)

func c16Rules() []*bt.GC {
	mv := func(n int32) *bt.GC { return &bt.GC{Kind: "maxver", N: n} }
	age := &bt.GC{Kind: "maxage", AgeSec: 1}
	return []*bt.GC{
		nil, mv(1), mv(2), mv(3), age,
		{Kind: "maxage", AgeSec: 0, AgeNanos: 999_000_000},
		{Kind: "union", Subs: []*bt.GC{mv(2), age}},
		{Kind: "union", Subs: []*bt.GC{age, mv(1)}},
		{Kind: "inter", Subs: []*bt.GC{mv(1), age}},
		{Kind: "union", Subs: []*bt.GC{{Kind: "union", Subs: []*bt.GC{mv(3)}}, age}},
		{Kind: "union", Subs: []*bt.GC{{Kind: "inter", Subs: []*bt.GC{mv(1), age}}, mv(3)}},
		// the smallest values: keep no version at all (every cell is condemned, the rows disappear), alone and as
		// a member of a union; a maximum age of zero (every cell older than now)
		mv(0),
		{Kind: "union", Subs: []*bt.GC{age, mv(0)}},
		{Kind: "maxage", AgeSec: 0},
	}
}

type c16Case struct {
	Engine string  `json:"engine"`
	Ops    []bt.Op `json:"ops"` // GC ops carry Adv (wall-clock advance before the pass)
	// NoReads: the harness issues no reads of its own between the requests (its state comparisons
	// would refresh the table's read activity); only the state after each GC pass is compared.
	NoReads bool `json:"noreads,omitempty"`
}

// runC16Seq executes the ops; GC ops are judged by the policy oracle:
//
//	idle >= 1h and written since the last pass -> exactly the model collection
//	idle < 4 min                              -> nothing changes
//	not written since the last pass           -> either nothing or exactly the model collection
func runC16Seq(c *fw.Ctx, cs c16Case) (string, string) {
	w := newBTWorld(c, cs.Engine)
	defer w.Close()
	for i := range cs.Ops {
		o := &cs.Ops[i]
		if o.Kind != "GC" {
			if m, cl := w.Step(o, !cs.NoReads); m != "" {
				return m, cl + ":" + o.Kind
			}
			continue
		}
		wallBefore := vtime.Cur()
		got := w.drv.Apply(o)
		if got.Panic != "" {
			return "panic in GC pass: " + got.Panic, "panic:GC"
		}
		wall := wallBefore + o.Adv
		noop := w.model.Clone()
		coll := w.model.Clone()
		must, mustNot := false, false
		for name, t := range coll.Tables {
			last := t.LastRead
			if t.LastWrite > last {
				last = t.LastWrite
			}
			idle := wall - last
			switch {
			case idle >= int64(time.Hour) && t.Dirty:
				must = true
				coll.GCTable(t)
				t.Dirty = false
			case idle < int64(4*time.Minute):
				mustNot = true
				_ = name
			case idle >= int64(time.Hour):
				coll.GCTable(t) // optional: not dirty
			default:
				return "internal: GC at an idle time the oracle does not judge", "internal"
			}
		}
		tryModel := func(m *bt.Model) string {
			w.model = m
			return w.CompareState()
		}
		var bad string
		switch {
		case must && !mustNot:
			bad = tryModel(coll)
		default:
			// tables judged individually: build the exact expectation
			exp := w.model.Clone()
			for name, t := range exp.Tables {
				last := t.LastRead
				if t.LastWrite > last {
					last = t.LastWrite
				}
				if wall-last >= int64(time.Hour) && t.Dirty {
					exp.GCTable(t)
					t.Dirty = false
				}
				_ = name
			}
			bad = tryModel(exp)
			if bad != "" && !must {
				// not-dirty tables may also be collected
				if b2 := tryModel(coll); b2 == "" {
					bad = ""
				} else if b3 := tryModel(noop); b3 == "" {
					bad = ""
				}
			}
		}
		if bad != "" {
			return fmt.Sprintf("after GC pass (wall +%v, server clock %d): %s", time.Duration(o.Adv), w.model.Clock, bad), "gc:" + gcTag(cs.Ops)
		}
		// CompareState issued reads: the model's activity stamps follow
		for _, t := range w.model.Tables {
			t.LastRead = vtime.Cur()
		}
	}
	return "", ""
}

func gcTag(ops []bt.Op) string {
	for _, o := range ops {
		if o.Kind == "CreateTable" {
			if g, ok := o.Fams["g"]; ok {
				return g.String()
			}
		}
	}
	return "-"
}

func init() {
	fw.Register(&fw.Check{
		ID:    "C16",
		Level: "model_checking",
		Rule: "(a) policy, bounded-exhaustive: every GC rule tree of a catalogue (none, max-versions, max-age incl. sub-second, unions, nested unions, unsupported intersection) x every subset of cell timestamps straddling the cut-off (cut-off-1ms, cut-off, +1ms, +2ms) x pass timing (idle 1h -> must collect exactly what the rule condemns; idle 1 min -> must not run; second pass; write-then-pass) x engines, plus a 250-row table (lock hand-over path, sequentially); the pass is the REAL background loop iteration driven through the clock/timer seams; " +
			"(b) hand-over, stateless model checking under a controlled scheduler: the real GC loop iteration over a table of 100 filler rows + target rows against 1-2 writer threads (SetCell, delete row, read-modify-write on target and filler rows), every interleaving within the preemption bound at the pass's Unlock/Lock pair and at every lock/storage access; oracle: each row's final content is explained by some order of the acknowledged writes with one atomic collect step of that row inserted anywhere or omitted; no deadlock",
		Assumptions: []string{
			"a pass must collect when the table has been idle for an hour and was written since the last pass, and must not run within 4 minutes of a data request; in between is not judged",
			"code between scheduling points is atomic (race detector side condition: C20)",
		},
		Run:    runC16,
		Replay: replayC16,
		Budget: schedBudget(75*time.Second, 20*time.Minute),
	})
}

func replayC16(c *fw.Ctx, raw json.RawMessage) (string, string) {
	var probe struct {
		Scenario string `json:"scenario"`
	}
	_ = json.Unmarshal(raw, &probe)
	if probe.Scenario == "" {
		var cs c16Case
		if err := json.Unmarshal(raw, &cs); err != nil {
			return "bad-replay", err.Error()
		}
		m, cl := runC16Seq(c, cs)
		if m == "" {
			return "", ""
		}
		return "C16:" + cs.Engine + ":" + cl, m
	}
	var sc schedCase
	if err := json.Unmarshal(raw, &sc); err != nil {
		return "bad-replay", err.Error()
	}
	var p c16Param
	if err := json.Unmarshal(sc.Param, &p); err != nil {
		return "bad-replay", err.Error()
	}
	_, class, detail, _ := runSchedOnce(c16Scenario(c, p), sc.Choices)
	if class == "" {
		return "", ""
	}
	return fmt.Sprintf("C16:%s:%s", sc.Scenario, class), detail
}

// ---- (b) hand-over ---------------------------------------------------------------------------------

type c16Param struct {
	Engine  string    `json:"engine"`
	Writers [][]bt.Op `json:"writers"`
	Rule    *bt.GC    `json:"rule"`
}

func (p c16Param) name() string {
	var ws []string
	for _, w := range p.Writers {
		var os []string
		for _, o := range w {
			os = append(os, c06OpName(o)+"("+keysOf(o)+")")
		}
		ws = append(ws, strings.Join(os, ","))
	}
	return fmt.Sprintf("%s:gc[%s]|%s", p.Engine, p.Rule.String(), strings.Join(ws, "|"))
}

type c16Fx struct {
	model *bt.Model
	rows  []*btpb.Row
}

var c16Fixtures = map[string]*c16Fx{}

func c16Setup(rule *bt.GC) []bt.Op {
	ops := []bt.Op{{Kind: "SetClock", Clock: c16Clock},
		{Kind: "CreateTable", Parent: parentI, TableID: "t", Fams: map[string]*bt.GC{"f": nil, "g": rule}}}
	// 100 filler rows (nothing to collect except in a050 and a099), then target rows
	for i := 0; i < 100; i++ {
		k := fmt.Sprintf("a%03d", i)
		muts := []bt.Mut{mset("g", "c", c16Cutoff+1000, "keep")}
		if i == 50 || i == 99 {
			muts = append(muts, mset("g", "c", c16Cutoff-1000, "old"), mset("g", "c", c16Cutoff-2000, "older"))
		}
		ops = append(ops, bt.Op{Kind: "MutateRow", Table: tblT, Key: []byte(k), Muts: muts})
	}
	for _, k := range []string{"t1", "t2", "t3"} {
		ops = append(ops, bt.Op{Kind: "MutateRow", Table: tblT, Key: []byte(k), Muts: []bt.Mut{
			mset("g", "c", c16Cutoff+2000, "new"), mset("g", "c", c16Cutoff-1000, "old"), mset("g", "c", c16Cutoff-2000, "older"), mset("f", "x", 1000, "plain")}})
	}
	return ops
}

func c16Fixture(rule *bt.GC) *c16Fx {
	key := rule.String()
	if f := c16Fixtures[key]; f != nil {
		return f
	}
	d := bt.NewDriver("btree", "")
	defer d.Close()
	m := bt.NewModel()
	for _, o := range c16Setup(rule) {
		o := o
		m.Apply(&o, nil, 0)
		if r := d.Apply(&o); r.Code != "OK" {
			panic("c16 fixture: " + r.Code + r.Msg + r.Panic)
		}
	}
	f := &c16Fx{model: m}
	for _, t := range d.S.VerifDump() {
		for _, r := range t.Rows {
			f.rows = append(f.rows, proto.Clone(r).(*btpb.Row))
		}
	}
	c16Fixtures[key] = f
	return f
}

func c16Scenario(c *fw.Ctx, p c16Param) *schedScenario {
	raw, _ := json.Marshal(p)
	return &schedScenario{Name: p.name(), Param: raw, Build: func() *schedInst { return c16Build(c, p) }}
}

func c16Build(c *fw.Ctx, p c16Param) *schedInst {
	vtime.SetVirtual(1_700_000_000_000_000_000, 1)
	var raw bttest.Rows
	d := bt.NewDriverOn(p.Engine, "", bt.PointStorage{Storage: bt.NewStorage(p.Engine, ""), OnCreate: func(_ string, r bttest.Rows) { raw = r }})
	fx := c16Fixture(p.Rule)
	model := fx.model.Clone()
	for _, o := range c16Setup(p.Rule)[:2] {
		o := o
		if r := d.Apply(&o); r.Code != "OK" {
			panic("c16 setup: " + r.Code + r.Msg + r.Panic)
		}
	}
	for _, r := range fx.rows {
		raw.ReplaceOrInsert(proto.Clone(r).(*btpb.Row))
	}
	vtime.Advance(time.Hour) // the table has been idle for an hour when the threads start
	type ev struct {
		op        bt.Op
		call, ret int64
		resp      bt.Resp
	}
	var clock int64
	var writes []ev
	gcDone := false
	threads := []func(){func() {
		d.GCPass(0)
		gcDone = true
	}}
	for _, w := range p.Writers {
		w := w
		threads = append(threads, func() {
			for _, o := range w {
				clock++
				e := ev{op: o, call: clock}
				e.resp = d.Apply(&e.op)
				clock++
				e.ret = clock
				writes = append(writes, e)
			}
		})
	}
	inst := &schedInst{Threads: threads}
	inst.Verdict = func(x *sched.Exec) (string, string, string) {
		defer d.Close()
		for _, w := range writes {
			if w.resp.Panic != "" {
				return "panic", "writer panicked: " + w.op.String() + ": " + w.resp.Panic, "panic"
			}
			if w.resp.Code != "OK" {
				return "status", "writer failed: " + w.op.String() + ": " + w.resp.Code + " " + w.resp.Msg, "status"
			}
		}
		if !gcDone {
			return "gc-incomplete", "the GC pass did not finish", "gc-incomplete"
		}
		fin := d.Apply(&bt.Op{Kind: "ReadRows", Table: tblT})
		if fin.Panic != "" || fin.Code != "OK" {
			return "final-read", "final read failed: " + fin.Code + fin.Panic, "final-read"
		}
		got := map[string]string{}
		for _, r := range fin.Rows {
			got[r.Key] = bt.RowsString([]bt.RowOut{r})
		}
		rowStr := func(m *bt.Model, key string) string {
			t := m.Tables[tblT]
			if t == nil || len(t.Rows[key]) == 0 {
				return ""
			}
			return bt.RowsString([]bt.RowOut{bt.ToRowOut(key, bt.Cells(t.Rows[key], nil))})
		}
		// per row: writes that touched it, in every order that respects real time, with the
		// collect step inserted at every position or omitted
		perRow := map[string][]ev{}
		keys := map[string]bool{}
		for k := range model.Tables[tblT].Rows {
			keys[k] = true
		}
		for _, w := range writes {
			if w.op.Kind == "DropRowRange" {
				for k := range keys {
					if w.op.All || strings.HasPrefix(k, string(w.op.Prefix)) {
						perRow[k] = append(perRow[k], w)
					}
				}
				continue
			}
			perRow[string(w.op.Key)] = append(perRow[string(w.op.Key)], w)
		}
		for k := range perRow {
			keys[k] = true
		}
		for k := range got {
			keys[k] = true
		}
		collected := 0
		for k := range keys {
			ws := perRow[k]
			var cands []string
			var rec func(m *bt.Model, rest []ev, gcUsed bool)
			rec = func(m *bt.Model, rest []ev, gcUsed bool) {
				if len(rest) == 0 {
					cands = append(cands, rowStr(m, k))
				}
				if !gcUsed {
					n := m.Clone()
					one := &bt.MTable{Fams: n.Tables[tblT].Fams, Rows: map[string]bt.MRow{}}
					if r, ok := n.Tables[tblT].Rows[k]; ok {
						one.Rows[k] = r
					}
					n.GCTable(one)
					if r, ok := one.Rows[k]; ok {
						n.Tables[tblT].Rows[k] = r
					} else {
						delete(n.Tables[tblT].Rows, k)
					}
					rec(n, rest, true)
				}
				for i, w := range rest {
					okOrder := true
					for j, o := range rest {
						if j != i && o.ret < w.call {
							okOrder = false
						}
					}
					if !okOrder {
						continue
					}
					n := m.Clone()
					n.Apply(&w.op, nil, 0)
					rec(n, append(append([]ev(nil), rest[:i]...), rest[i+1:]...), gcUsed)
				}
			}
			// restrict the model to this row for speed
			base := bt.NewModel()
			base.Clock = model.Clock
			base.Tables[tblT] = &bt.MTable{Fams: model.Tables[tblT].Fams, Rows: map[string]bt.MRow{}}
			if r, ok := model.Tables[tblT].Rows[k]; ok {
				base.Tables[tblT].Rows[k] = r
			}
			rec(base, ws, false)
			ok := false
			for _, cnd := range cands {
				if cnd == got[k] {
					ok = true
				}
			}
			if !ok {
				return "row", fmt.Sprintf("row %q ends as %.300q, which no order of its acknowledged writes %v with an atomic collect step inserted anywhere (or omitted) produces; admissible: %.600q",
					k, got[k], opsOf(ws), cands), "row"
			}
			if got[k] != rowStr(base, k) && len(ws) == 0 {
				collected++
			}
		}
		return "", "", fmt.Sprintf("collected_untouched_rows=%d t1=%x", collected, fw.Hash(got["t1"], got["t2"], got["a099"]))
	}
	return inst
}

func opsOf[T any](ws []T) string { return fmt.Sprintf("%d writes", len(ws)) }

func runC16(c *fw.Ctx) {
	// (a) policy
	rules := c16Rules()
	tsAll := []int64{c16Cutoff - 1000, c16Cutoff, c16Cutoff + 1000, c16Cutoff + 2000}
	engines := []string{"btree", "mem"}
	if c.Thorough() {
		engines = append(engines, "disk")
	}
	var item int64
	for _, eng := range engines {
		for _, rule := range rules {
			for mask := 0; mask < 16; mask++ {
				var muts []bt.Mut
				for i, ts := range tsAll {
					if mask&(1<<i) != 0 {
						muts = append(muts, mset("g", "c", ts, fmt.Sprintf("v%d", i)))
					}
				}
				base := []bt.Op{{Kind: "SetClock", Clock: c16Clock},
					{Kind: "CreateTable", Parent: parentI, TableID: "t", Fams: map[string]*bt.GC{"f": nil, "g": rule}},
					{Kind: "CreateTable", Parent: parentI, TableID: "u", Fams: map[string]*bt.GC{"g": nil}},
					{Kind: "MutateRow", Table: tblU, Key: []byte("r1"), Muts: []bt.Mut{mset("g", "c", c16Cutoff-5000, "other-table"), mset("g", "c", c16Cutoff-6000, "other-table")}},
					{Kind: "MutateRow", Table: tblT, Key: []byte("r0"), Muts: []bt.Mut{mset("f", "c", c16Cutoff-1000, "norule"), mset("f", "c", c16Cutoff-2000, "norule")}},
				}
				if len(muts) > 0 {
					base = append(base, bt.Op{Kind: "MutateRow", Table: tblT, Key: []byte("r1"), Muts: append(append([]bt.Mut(nil), muts...), mset("f", "c", 1000, "norule"))},
						bt.Op{Kind: "MutateRow", Table: tblT, Key: []byte("r2"), Muts: muts},
						bt.Op{Kind: "MutateRow", Table: tblT, Key: []byte("r3"), Muts: append(append([]bt.Mut(nil), muts...), mset("g", "d", c16Cutoff-9000, "old-d"))})
				}
				gcH := bt.Op{Kind: "GC", Adv: int64(time.Hour)}
				gcM := bt.Op{Kind: "GC", Adv: int64(time.Minute)}
				wr := bt.Op{Kind: "MutateRow", Table: tblT, Key: []byte("r1"), Muts: []bt.Mut{mset("g", "c", c16Cutoff-3000, "late")}}
				rd := bt.Op{Kind: "ReadRows", Table: tblT}
				progs := [][]bt.Op{
					{gcH}, {gcM}, {gcH, gcH}, {gcH, wr, gcH}, {gcH, wr, gcM}, {gcM, gcH},
					{gcH, {Kind: "SetClock", Clock: c16Clock + 5_000_000}, gcH}, // later server clock, table not written: optional
					{gcH, rd, gcM},
					// a server clock between two milliseconds (cell timestamps are whole milliseconds, the clock is not): the
					// cell exactly at the millisecond cut-off is older than now - max_age
					{{Kind: "SetClock", Clock: c16Clock + 500}, gcH},
					{{Kind: "SetClock", Clock: c16Clock + 999}, gcH},
					{{Kind: "SetClock", Clock: c16Clock - 1}, gcH},
				}
				// the schema changes BETWEEN two passes (the second pass must judge by the rule in force then): the rule of
				// g is replaced by each of two other rules / removed, g is dropped and created again with another rule, a new
				// family with a rule appears; a write after the change makes the second pass mandatory
				if mask == 15 || mask == 5 {
					ri := 0
					for i, r := range rules {
						if r == rule {
							ri = i
						}
					}
					wrAll := bt.Op{Kind: "MutateRow", Table: tblT, Key: []byte("r2"), Muts: muts}
					for _, r2 := range []*bt.GC{rules[(ri+1)%len(rules)], rules[(ri+4)%len(rules)], nil} {
						if r2 == rule {
							continue
						}
						upd := bt.Op{Kind: "ModifyFamilies", Table: tblT, Mods: []bt.Mod{{ID: "g", Op: "update", GC: r2}}}
						recr := bt.Op{Kind: "ModifyFamilies", Table: tblT, Mods: []bt.Mod{{ID: "g", Op: "drop"}, {ID: "g", Op: "create", GC: r2}}}
						newf := bt.Op{Kind: "ModifyFamilies", Table: tblT, Mods: []bt.Mod{{ID: "h", Op: "create", GC: r2}}}
						wrH := bt.Op{Kind: "MutateRow", Table: tblT, Key: []byte("r2"), Muts: []bt.Mut{mset("h", "c", c16Cutoff-1000, "h0"), mset("h", "c", c16Cutoff, "h1"), mset("h", "c", c16Cutoff+1000, "h2"), mset("h", "c", c16Cutoff+2000, "h3")}}
						progs = append(progs, []bt.Op{gcH, upd, wrAll, gcH}, []bt.Op{gcH, wrAll, upd, wr, gcH}, []bt.Op{gcH, recr, wrAll, gcH}, []bt.Op{gcH, newf, wrH, gcH},
							[]bt.Op{upd, wr, gcH})
					}
				}
				adv := bt.Op{Kind: "Advance", Adv: int64(time.Hour)}
				noReadProgs := [][]bt.Op{
					{adv, rd, gcM},     // written an hour ago but read a minute ago: in active use
					{rd, adv, wr, gcM}, // read an hour ago but written a minute ago: in active use
					{adv, gcM},         // idle for an hour: must collect
					{rd, adv, gcM},
				}
				for pi, pr := range noReadProgs {
					item++
					if !c.Mine(item) {
						continue
					}
					cs := c16Case{Engine: eng, NoReads: true, Ops: append(append([]bt.Op(nil), base...), pr...)}
					m, cl := runC16Seq(c, cs)
					c.Eval(1)
					c.Trace(1)
					c.Trans(int64(len(cs.Ops)))
					if m != "" {
						c.Violate(fmt.Sprintf("C16:%s:%s:noreads%d", eng, cl, pi), m+"\n  program (no harness reads in between): "+bt.OpsString(cs.Ops), cs, func() string {
							m2, cl2 := runC16Seq(c, cs)
							if m2 == "" {
								return ""
							}
							return fmt.Sprintf("C16:%s:%s:noreads%d", eng, cl2, pi)
						})
						continue
					}
					c.State(fw.Hash(eng, rule.String(), fmt.Sprint(mask, "noreads", pi)))
				}
				for pi, pr := range progs {
					item++
					if !c.Mine(item) {
						continue
					}
					if c.Expired() {
						c.Incomplete("time budget reached in the policy pass")
						return
					}
					cs := c16Case{Engine: eng, Ops: append(append([]bt.Op(nil), base...), pr...)}
					m, cl := runC16Seq(c, cs)
					c.Eval(1)
					c.Trace(1)
					c.Trans(int64(len(cs.Ops)))
					if m != "" {
						c.Violate(fmt.Sprintf("C16:%s:%s", eng, cl), m+"\n  program: "+bt.OpsString(cs.Ops), cs, func() string {
							m2, cl2 := runC16Seq(c, cs)
							if m2 == "" {
								return ""
							}
							return fmt.Sprintf("C16:%s:%s", eng, cl2)
						})
						continue
					}
					c.State(fw.Hash(eng, rule.String(), fmt.Sprint(mask, pi)))
					c.Outcome(fmt.Sprintf("policy:%s", rule.String()))
					if item%397 == 0 {
						c.Sample(map[string]interface{}{"engine": eng, "program": bt.OpsString(cs.Ops[3:])})
					}
				}
			}
		}
		// 250 (and 1 100) rows: the pass releases and re-takes the lock (sequentially). Variants: which rows lose ALL their cells
		// in the pass (the row the pass stood on when it gave up the lock is gone when it continues), which lose none
		for variant := 0; variant < 8; variant++ {
			item++
			if c.Mine(item) {
				grule := &bt.GC{Kind: "maxver", N: 1}
				if variant > 0 {
					grule = &bt.GC{Kind: "maxage", AgeSec: 1}
				}
				nrows := 250
				if variant == 7 {
					nrows = 1100
				}
				ops := []bt.Op{{Kind: "SetClock", Clock: c16Clock}, {Kind: "CreateTable", Parent: parentI, TableID: "t", Fams: map[string]*bt.GC{"g": grule}}}
				for i := 0; i < nrows; i++ {
					muts := []bt.Mut{mset("g", "c", 2000, "new"), mset("g", "c", 1000, "old")}
					if variant > 0 {
						emptied := false
						switch variant {
						case 1:
							emptied = i%100 == 99
						case 2:
							emptied = i%100 == 0
						case 3:
							emptied = i >= 95 && i <= 105
						case 4:
							emptied = i%2 == 1
						case 5:
							emptied = i%50 == 49 || i%64 == 63 || i%128 == 0
						case 6:
							emptied = i < 120
						case 7:
							emptied = i%100 == 99 || i%256 == 255 || i%1000 == 999 || i%1024 == 1023
						}
						muts = []bt.Mut{mset("g", "c", c16Cutoff-1000, "old"), mset("g", "d", c16Cutoff-2000, "older")}
						if !emptied {
							muts = append(muts, mset("g", "c", c16Cutoff+1000, "new"))
						}
					}
					ops = append(ops, bt.Op{Kind: "MutateRow", Table: tblT, Key: []byte(fmt.Sprintf("k%04d", i)), Muts: muts})
				}
				ops = append(ops, bt.Op{Kind: "GC", Adv: int64(time.Hour)})
				cs := c16Case{Engine: eng, Ops: ops}
				w := newBTWorld(c, eng)
				w.stateCheck = false
				bad := ""
				for i := range ops[:len(ops)-1] {
					w.model.Apply(&ops[i], nil, vtime.Cur())
					w.drv.Apply(&ops[i])
				}
				w.drv.Apply(&ops[len(ops)-1])
				w.model.GCTable(w.model.Tables[tblT])
				bad = w.CompareState()
				w.Close()
				c.Eval(1)
				c.Trace(1)
				if bad != "" {
					c.Violate(fmt.Sprintf("C16:%s:gc:250rows:v%d", eng, variant), fmt.Sprintf("%d-row table (variant %d) after a GC pass: ", nrows, variant)+bad, cs, nil)
				}
			}
		}
	}
	c.Bound("rules", len(rules))
	// (b) hand-over
	set := func(k string) bt.Op {
		return bt.Op{Kind: "MutateRow", Table: tblT, Key: []byte(k), Muts: []bt.Mut{mset("g", "w", c16Cutoff+3000, "written-during-pass"), mset("f", "w", 1000, "w")}}
	}
	del := func(k string) bt.Op {
		return bt.Op{Kind: "MutateRow", Table: tblT, Key: []byte(k), Muts: []bt.Mut{{Kind: "delrow"}}}
	}
	rmw := func(k string) bt.Op {
		return bt.Op{Kind: "RMW", Table: tblT, Key: []byte(k), Rules: []bt.Rule{{Fam: "g", Qual: []byte("c"), Append: []byte("+rmw")}}}
	}
	rule := &bt.GC{Kind: "union", Subs: []*bt.GC{{Kind: "maxver", N: 2}, {Kind: "maxage", AgeSec: 1}}}
	var scen []c16Param
	hengines := []string{"mem"}
	if c.Thorough() {
		hengines = []string{"mem", "btree"}
	}
	for _, eng := range hengines {
		for _, w := range []bt.Op{set("t1"), del("t1"), rmw("t1"), set("t2"), set("a050"), rmw("a099"), set("t0-new"), del("a099")} {
			scen = append(scen, c16Param{Engine: eng, Rule: rule, Writers: [][]bt.Op{{w}}})
		}
		scen = append(scen,
			c16Param{Engine: eng, Rule: rule, Writers: [][]bt.Op{{{Kind: "DropRowRange", Table: tblT, Prefix: []byte("t")}}}},
			c16Param{Engine: eng, Rule: rule, Writers: [][]bt.Op{{{Kind: "DropRowRange", Table: tblT, Prefix: []byte("a09")}}}},
			c16Param{Engine: eng, Rule: rule, Writers: [][]bt.Op{{{Kind: "DropRowRange", Table: tblT, All: true}}}},
			c16Param{Engine: eng, Rule: rule, Writers: [][]bt.Op{{set("t1")}, {rmw("t2")}}},
			c16Param{Engine: eng, Rule: rule, Writers: [][]bt.Op{{set("t1"), rmw("t1")}}},
			c16Param{Engine: eng, Rule: rule, Writers: [][]bt.Op{{del("t2")}, {set("t2")}}},
		)
	}
	base := item
	for i, p := range scen {
		if !c.Mine(base + int64(i)) {
			continue
		}
		if c.Expired() {
			c.Incomplete("time budget reached before all hand-over scenarios were explored")
			break
		}
		sc := c16Scenario(c, p)
		if !selfCheckDeterminism(c, "C16", sc) {
			return
		}
		bound := 2
		if c.Thorough() {
			bound = 3
		}
		n := exploreScenario(c, "C16", sc, bound, 0)
		c.Note("execs:"+sc.Name, n)
	}
	c.Bound("handover_scenarios", len(scen))
}
