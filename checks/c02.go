package checks

import (
	"crypto/md5"
	"encoding/json"
	"fmt"
	"strings"
	"time"

	"verif/fw"
	"verif/gcs"
)

// C02 — GCS: what is uploaded is what is served, until overwritten or deleted.

type gcsCase struct {
	Store string `json:"store"`
	Step  int64  `json:"clock_step_ns"`
	Ops   []GOp  `json:"ops"`
	// CheckAll: compare the whole state after every op (otherwise only after the last)
	Forms bool `json:"forms,omitempty"`
	// CheckFrom: when every step is checked (replays), the requests before this index are executed without the
	// state comparison (fixtures of a thousand objects: comparing the whole bucket after each upload is quadratic)
	CheckFrom int `json:"check_from,omitempty"`
}

// c02NamesMem: folder placeholders (names that end in the separator), which only the memory store can hold.
var c02NamesMem = []string{"dir/", "p/q/"}

var c02Names = []string{"a", "a/b", "a.b/c.d", "a b", "ü", "a%2Fb", "x?y#z", ".hidden", "d/e/f.txt", "log..1/part..2", "a..b"}

func c02Tag(o *GOp) string {
	t := o.Kind
	if o.Kind == "Upload" {
		t += ":" + o.Proto
		if o.Gzip {
			t += "+gzip"
			if o.GzN > 1 {
				t += "-multimember"
			}
		}
		switch {
		case o.Meta.Md5Hash == "":
		case o.Meta.Md5Hash == gcs.MD5b64(o.Data):
			t += "+md5ok"
		default:
			t += "+md5bad"
		}
		if o.Chunks != nil {
			t += fmt.Sprintf("+chunks%d", len(o.Chunks))
			for _, c := range o.Chunks {
				if c.Query {
					t += "q"
					break
				}
			}
		}
		if o.No308 {
			t += "+no308"
		}
	}
	if o.Kind == "Get" {
		t += ":" + o.Form
	}
	for i, n := range c02Names {
		if n == o.Name {
			t += fmt.Sprintf(":name%d", i)
		}
	}
	return t
}

// runGCS executes the ops on a fresh world; the last op (or all, with checkAll) is checked
// including the complete state; with forms, after every successful step each object of the
// model is additionally fetched through the /download and public URL forms.
func runGCS(c *fw.Ctx, gc gcsCase, checkAll bool, tag func(*GOp) string) (string, string, uint64) {
	w := newGCSWorld(c, gc.Store, gc.Step, nil)
	defer w.Close()
	for i := range gc.Ops {
		last := i == len(gc.Ops)-1
		// the state is also observed BEFORE the last request (in the same instance): observation - request - observation is
		// the history in which something an observation left behind (a cache of resolved metadata, a pooled buffer) shows
		check := (checkAll && i >= gc.CheckFrom) || last || (i == len(gc.Ops)-2 && i >= gc.CheckFrom)
		m, cl := w.Step(&gc.Ops[i], check)
		if m != "" {
			return m, fmt.Sprintf("%s:%s", cl, tag(&gc.Ops[i])), 0
		}
		if gc.Forms && check {
			for b := range w.model.Buckets {
				for _, n := range w.model.Names(b) {
					for _, f := range []string{"download", "public"} {
						g := GOp{Kind: "Get", Bucket: b, Name: n, Form: f}
						if m, cl := w.step(&g); m != "" {
							return "after " + gc.Ops[i].String() + ": " + m, fmt.Sprintf("%s:%s", cl, tag(&g)), 0
						}
					}
				}
			}
		}
	}
	return "", "", w.Hash()
}

func gcsReplay(id string, tag func(*GOp) string) func(c *fw.Ctx, raw json.RawMessage) (string, string) {
	return func(c *fw.Ctx, raw json.RawMessage) (string, string) {
		var gc gcsCase
		if err := json.Unmarshal(raw, &gc); err != nil {
			return "bad-replay", err.Error()
		}
		m, cl, _ := runGCS(c, gc, true, tag)
		if m == "" {
			return "", ""
		}
		return fmt.Sprintf("%s:%s:%s", id, gc.Store, cl), m
	}
}

// tryGCS runs one case and records the result.
func tryGCS(c *fw.Ctx, id string, gc gcsCase, tag func(*GOp) string) (ok bool, h uint64) {
	m, cl, h := runGCS(c, gc, false, tag)
	c.Eval(1)
	c.Trace(1)
	c.Trans(1)
	if m != "" {
		// locate the earliest disagreement (intermediate steps are only fully checked on demand)
		if m2, cl2, _ := runGCS(c, gc, true, tag); m2 != "" {
			m, cl = m2, cl2
		}
		sig := fmt.Sprintf("%s:%s:%s", id, gc.Store, cl)
		c.Violate(sig, m+"\n  program: "+GOpsString(gc.Ops), gc, func() string {
			m2, cl2, _ := runGCS(c, gc, true, tag)
			if m2 == "" {
				return ""
			}
			return fmt.Sprintf("%s:%s:%s", id, gc.Store, cl2)
		})
		c.Outcome("violation:" + strings.SplitN(cl, ":", 2)[0])
		return false, 0
	}
	c.State(fw.Hash(fmt.Sprint(h), gc.Store, gc.Ops[len(gc.Ops)-1].String()))
	return true, h
}

func compositions(n int) [][]int {
	if n == 0 {
		return [][]int{{}}
	}
	var out [][]int
	for first := 1; first <= n; first++ {
		for _, rest := range compositions(n - first) {
			out = append(out, append([]int{first}, rest...))
		}
	}
	return out
}

// c02ChunkPlans: every composition of the payload into chunks x how the total is announced x
// one re-sent range / one status query inserted at every position.
func c02ChunkPlans(n int) [][]GChunk {
	var plans [][]GChunk
	for _, comp := range compositions(n) {
		for mode := 0; mode < 3; mode++ { // 0: total known in every chunk; 1: "*" until the last chunk; 2: "*" everywhere + final "bytes */N"
			var base []GChunk
			off := 0
			for i, sz := range comp {
				tot := n
				if mode == 1 && i != len(comp)-1 || mode == 2 {
					tot = -1
				}
				base = append(base, GChunk{Lo: off, Hi: off + sz, Total: tot})
				off += sz
			}
			if mode == 2 || n == 0 {
				base = append(base, GChunk{Lo: n, Hi: n, Total: n, Query: true})
			}
			plans = append(plans, base)
			for pos := 0; pos < len(base); pos++ {
				// status query "bytes */*" before chunk pos
				q := append(append(append([]GChunk(nil), base[:pos]...), GChunk{Total: -1, Query: true}), base[pos:]...)
				plans = append(plans, q)
				// re-send the previous data chunk (with unknown total so that it cannot complete) before chunk pos
				if pos >= 1 && !base[pos-1].Query {
					rs := base[pos-1]
					rs.Total = -1
					r := append(append(append([]GChunk(nil), base[:pos]...), rs), base[pos:]...)
					plans = append(plans, r)
					// a malformed chunk (announced length != body length) starting below what has been received
					if base[pos-1].Hi >= 2 {
						bl := GChunk{Lo: 0, Hi: base[pos-1].Hi, Total: -1, BadLen: true}
						b2 := append(append(append([]GChunk(nil), base[:pos]...), bl), base[pos:]...)
						plans = append(plans, b2)
					}
					// overlapping range: re-send from the middle of everything received so far
					if base[pos-1].Hi-0 >= 2 {
						ov := GChunk{Lo: 1, Hi: base[pos-1].Hi, Total: -1}
						o2 := append(append(append([]GChunk(nil), base[:pos]...), ov), base[pos:]...)
						plans = append(plans, o2)
					}
				}
			}
		}
	}
	return plans
}

func init() {
	fw.Register(&fw.Check{
		ID:    "C02",
		Level: "model_checking",
		Rule: "bounded-exhaustive enumeration on the real HTTP handler: protocol {media, multipart, resumable} x payload catalogue x declared MD5 {none,right,wrong,not base64} x gzip request body x object-name catalogue x store {memory,file}; for resumable uploads EVERY composition of the payload into chunks x 3 ways of announcing the total x one status query / re-sent / overlapping range inserted at every position x X-Guploader-No-308; " +
			"plus a BFS (dedup on model state) over sequences of upload/overwrite/delete/re-upload on neighbouring names in two buckets; after every step every object is fetched through the JSON, /download and public URL forms and metadata+listing are compared with the reference model",
		Assumptions: []string{
			"the content type is sent where the official clients send it (request header for media, JSON metadata for multipart/resumable)",
			"bucket names do not coincide with the API's own path markers; uploads go to existing buckets",
			"when the object resource names a contentType and the media part / X-Upload-Content-Type header names another, the resource's wins (as in the real service); a resource without contentType next to a typed part is not judged",
		},
		Run:    runC02,
		Replay: gcsReplay("C02", c02Tag),
		Budget: func(tier string) time.Duration {
			if tier == "thorough" {
				return 15 * time.Minute
			}
			return 60 * time.Second
		},
	})
}

func runC02(c *fw.Ctx) {
	stores := []string{"mem", "file"}
	// (the last four look like the framing of some transport: gzip magic number, a trailing CR LF, text that looks like a multipart
	// delimiter (not the one in use: a client picks a boundary that does not occur in the content), JSON)
	payloads := [][]byte{{}, []byte("x"), []byte("\x00\xff\n"), []byte("abcde"),
		[]byte("\x1f\x8b\x08\x00not really gzip"), []byte("line\r\n"), []byte("\r\n--not-the-boundary--\r\n"), []byte(`{"name":"other"}`)}
	big := make([]byte, 2048)
	for i := range big {
		big[i] = byte(i*7 + i/256)
	}
	if c.Thorough() {
		payloads = append(payloads, big)
	}
	setup := []GOp{{Kind: "CreateBucket", Bucket: "b1"}, {Kind: "CreateBucket", Bucket: "b2"},
		{Kind: "Upload", Proto: "media", Bucket: "b1", Name: "keep", Data: []byte("keep-1"), Meta: gcs.ObjMeta{ContentType: "text/plain"}},
		{Kind: "Upload", Proto: "media", Bucket: "b2", Name: "a", Data: []byte("other-bucket"), Meta: gcs.ObjMeta{ContentType: "text/plain"}}}
	var item int64
	// Part A: protocol x payload x md5 x gzip x name
	for _, store := range stores {
		names := c02Names
		if store == "mem" {
			names = append(append([]string(nil), c02Names...), c02NamesMem...)
		}
		for _, name := range names {
			for _, proto := range []string{"media", "multipart", "resumable"} {
				for pi, data := range payloads {
					for md := 0; md < 6; md++ {
						for gzi := 0; gzi < 3; gzi++ { // 0 plain, 1 gzip body, 2 gzip body of several members
							item++
							if !c.Mine(item) {
								continue
							}
							if c.Expired() {
								c.Incomplete("time budget reached in part A")
								return
							}
							meta := gcs.ObjMeta{ContentType: "application/x-verif", Metadata: map[string]string{"k": "v"}}
							if proto == "media" {
								meta.Metadata = nil
							}
							switch md {
							case 1:
								meta.Md5Hash = gcs.MD5b64(data)
							case 2:
								meta.Md5Hash = gcs.MD5b64(append([]byte("z"), data...))
							case 3:
								meta.Md5Hash = "***not-base64***"
							case 4:
								meta.Md5Hash = "AAAA" // valid base64, but of 3 bytes: not the digest of anything
							case 5:
								meta.Md5Hash = fmt.Sprintf("%x", md5.Sum(data)) // the hex form of the right digest: valid base64 of 24 bytes
							}
							if proto == "media" && md != 0 {
								continue // a media upload has no place for a declared MD5
							}
							prev := GOp{Kind: "Upload", Proto: "media", Bucket: "b1", Name: name, Data: []byte("previous"), Meta: gcs.ObjMeta{ContentType: "text/old"}}
							up := GOp{Kind: "Upload", Proto: proto, Bucket: "b1", Name: name, Data: data, Meta: meta, Gzip: gzi >= 1, RetryFinal: md >= 2}
							if gzi == 2 {
								if len(data) < 3 {
									continue
								}
								up.GzN = 3
							}
							ups := []GOp{up}
							if md == 0 && gzi == 0 && proto != "media" {
								// the secondary carrier of the content type (media part / X-Upload-Content-Type) disagrees
								// with the object resource: the resource wins
								alt := up
								alt.AltType = "application/x-the-part-says-otherwise"
								ups = append(ups, alt)
							}
							// onto an absent object, and onto an existing one (a rejected upload must leave it intact)
							for _, up := range ups {
								for _, pre := range [][]GOp{nil, {prev}} {
									ops := append(append(append([]GOp(nil), setup...), pre...), up)
									if ok, _ := tryGCS(c, "C02", gcsCase{Store: store, Ops: ops, Forms: true}, c02Tag); ok {
										c.Outcome(fmt.Sprintf("%s:p%d:md%d", proto, pi, md))
										if item%211 == 0 {
											c.Sample(map[string]interface{}{"store": store, "program": GOpsString(ops[len(setup):])})
										}
									}
								}
							}
						}
					}
				}
			}
		}
	}
	// Part B: every chunking of a resumable upload
	sizes := []int{0, 1, 2, 3, 4, 5}
	if c.Thorough() {
		sizes = []int{0, 1, 2, 3, 4, 5, 6}
	}
	nplans := 0
	for _, store := range stores {
		for _, n := range sizes {
			data := []byte("abcdefgh")[:n]
			for _, plan := range c02ChunkPlans(n) {
				for no308 := 0; no308 < 2; no308++ {
					nplans++
					item++
					if !c.Mine(item) {
						continue
					}
					if c.Expired() {
						c.Incomplete("time budget reached in part B")
						return
					}
					// (with X-Guploader-No-308 the run also sends one more chunk to the session after it has completed)
					up := GOp{Kind: "Upload", Proto: "resumable", Bucket: "b1", Name: "a/b", Data: data, Meta: gcs.ObjMeta{ContentType: "text/plain"}, Chunks: plan, No308: no308 == 1, StrayAfter: no308 == 1}
					ops := append(append([]GOp(nil), setup...), up, GOp{Kind: "Get", Bucket: "b1", Name: "a/b", Form: "json"})
					if ok, _ := tryGCS(c, "C02", gcsCase{Store: store, Ops: ops}, c02Tag); ok {
						c.Outcome(fmt.Sprintf("resumable:%d-chunks", len(plan)))
						if item%97 == 0 {
							c.Sample(map[string]interface{}{"store": store, "program": up.String()})
						}
					}
				}
			}
		}
	}
	c.Bound("chunk_plans_x_no308_x_stores", nplans)
	// Part C: sequences (BFS with dedup on the model state)
	P := func(proto, b, n, data string) GOp {
		m := gcs.ObjMeta{ContentType: "text/" + proto}
		return GOp{Kind: "Upload", Proto: proto, Bucket: b, Name: n, Data: []byte(data), Meta: m}
	}
	alpha := []GOp{
		P("media", "b1", "a", "A1"), P("multipart", "b1", "a", "A2-longer"), P("resumable", "b1", "a", ""),
		P("media", "b1", "a.b", "AB"), P("multipart", "b1", "ab", "ab"), P("resumable", "b2", "a", "B2A"),
		P("media", "b1", "a..b", "dotted twin of ab and a.b"),
		{Kind: "Upload", Proto: "multipart", Bucket: "b1", Name: "a", Data: []byte("bad"), Meta: gcs.ObjMeta{ContentType: "t/x", Md5Hash: gcs.MD5b64([]byte("other"))}},
		{Kind: "Delete", Bucket: "b1", Name: "a"}, {Kind: "Delete", Bucket: "b1", Name: "a.b"}, {Kind: "Delete", Bucket: "b2", Name: "a"},
		{Kind: "Delete", Bucket: "b1", Name: "nonexistent"},
	}
	depth := 3
	if c.Thorough() {
		depth = 4
	}
	for _, store := range stores {
		frontier := [][]int{{}}
		seen := map[uint64]bool{}
		for d := 1; d <= depth; d++ {
			var next [][]int
			for _, seq := range frontier {
				for k := range alpha {
					item++
					if d <= 2 && c.Shard != 0 {
						// shallow levels are replicated in every shard to build the frontier; recorded by shard 0
					}
					ns := append(append([]int(nil), seq...), k)
					ops := append([]GOp(nil), setup[:2]...)
					for _, x := range ns {
						ops = append(ops, alpha[x])
					}
					if c.Expired() {
						c.Incomplete("time budget reached in part C")
						return
					}
					var ok bool
					var h uint64
					if d > 2 || c.Shard == 0 {
						ok, h = tryGCS(c, "C02", gcsCase{Store: store, Ops: ops, Forms: true}, c02Tag)
					} else {
						m, _, hh := runGCS(c, gcsCase{Store: store, Ops: ops}, false, c02Tag)
						ok, h = m == "", hh
					}
					if !ok || seen[h] {
						continue
					}
					seen[h] = true
					if d < depth {
						next = append(next, ns)
					}
				}
			}
			if d == 2 && c.N > 1 {
				var mine [][]int
				for i, s := range next {
					if i%c.N == c.Shard {
						mine = append(mine, s)
					}
				}
				next = mine
			}
			frontier = next
		}
		c.Bound(store+"_sequence_depth", depth)
	}
	// Part D: payloads larger than any buffer the transport or the handlers use (300 KiB, patterned so that a
	// repeated or dropped block shows), by every protocol, in 256 KiB + rest chunks, gzip-compressed, then
	// overwritten by a shorter object
	large := make([]byte, 300*1024+17)
	for i := range large {
		large[i] = byte(i*31 + i/251 + i/65536)
	}
	n := len(large)
	for _, store := range stores {
		for _, gzi := range []bool{false, true} {
			ups := []GOp{
				{Kind: "Upload", Proto: "media", Bucket: "b1", Name: "big/o", Data: large, Meta: gcs.ObjMeta{ContentType: "application/octet-stream"}, Gzip: gzi},
				{Kind: "Upload", Proto: "multipart", Bucket: "b1", Name: "big/o", Data: large, Meta: gcs.ObjMeta{ContentType: "application/octet-stream", Md5Hash: gcs.MD5b64(large)}, Gzip: gzi},
				{Kind: "Upload", Proto: "resumable", Bucket: "b1", Name: "big/o", Data: large, Meta: gcs.ObjMeta{ContentType: "application/octet-stream"}, Gzip: gzi},
				{Kind: "Upload", Proto: "resumable", Bucket: "b1", Name: "big/o", Data: large, Meta: gcs.ObjMeta{ContentType: "application/octet-stream"}, Gzip: gzi,
					Chunks: []GChunk{{Lo: 0, Hi: 262144, Total: -1}, {Lo: 262144, Hi: n, Total: n}}},
				{Kind: "Upload", Proto: "resumable", Bucket: "b1", Name: "big/o", Data: large, Meta: gcs.ObjMeta{ContentType: "application/octet-stream"}, Gzip: gzi,
					Chunks: []GChunk{{Lo: 0, Hi: 262144, Total: n}, {Query: true, Total: n}, {Lo: 262144, Hi: n, Total: n}}},
			}
			// ... and a session of MANY chunks (more than any per-session list or counter is likely to be sized for):
			// 150 chunks of 7 bytes, a status query after every 50th
			{
				many := large[:150*7]
				var plan []GChunk
				for i := 0; i < 150; i++ {
					tot := -1
					if i == 149 {
						tot = len(many)
					}
					plan = append(plan, GChunk{Lo: i * 7, Hi: (i + 1) * 7, Total: tot})
					if i%50 == 49 && i != 149 {
						plan = append(plan, GChunk{Query: true, Total: -1})
					}
				}
				ups = append(ups, GOp{Kind: "Upload", Proto: "resumable", Bucket: "b1", Name: "big/o", Data: many, Meta: gcs.ObjMeta{ContentType: "application/octet-stream"}, Gzip: gzi, Chunks: plan})
			}
			for _, up := range ups {
				item++
				if !c.Mine(item) {
					continue
				}
				ops := append(append([]GOp(nil), setup...), up,
					GOp{Kind: "Upload", Proto: "media", Bucket: "b1", Name: "big/o", Data: []byte("short"), Meta: gcs.ObjMeta{ContentType: "text/plain"}})
				if ok, _ := tryGCS(c, "C02", gcsCase{Store: store, Ops: ops}, c02Tag); ok {
					c.Outcome("large:" + up.Proto)
				}
			}
		}
	}
	// Part E: two resumable sessions in flight at once, continued in alternation: on two names, and on the SAME name
	for _, store := range stores {
		for _, n2 := range []string{"sess/b", "sess/a"} {
			for _, d := range [][2]string{{"AAAAAA", "bbbb"}, {"A", "bbbbbbbb"}, {"", "bb"}, {"AAAA", ""}} {
				item++
				if !c.Mine(item) {
					continue
				}
				up := GOp{Kind: "Upload2", Bucket: "b1", Name: "sess/a", Data: []byte(d[0]), Meta: gcs.ObjMeta{ContentType: "text/first", Metadata: map[string]string{"session": "A"}}, Name2: n2, Data2: []byte(d[1])}
				ops := append(append([]GOp(nil), setup...), up)
				if ok, _ := tryGCS(c, "C02", gcsCase{Store: store, Ops: ops}, c02Tag); ok {
					c.Outcome("two-sessions")
				}
			}
		}
	}
	// Part E': declared totals and positions beyond 2^31 and 2^32 (no payload of that size is needed to say so), and
	// uploads that start after more sessions were abandoned than any session table is likely to hold
	for _, store := range stores {
		for hi, tot := range []int{2147483647, 2147483648, 3_000_000_000, 4294967296, 5_000_000_000} {
			item++
			if !c.Mine(item) {
				continue
			}
			up := GOp{Kind: "Upload", Proto: "resumable", Bucket: "b1", Name: "huge/o", Data: []byte("abcd"), Meta: gcs.ObjMeta{ContentType: "application/octet-stream"},
				Chunks: []GChunk{{Lo: 0, Hi: 2, Total: tot}, {Query: true, Total: tot}, {Lo: 2, Hi: 4, Total: tot}, {Query: true, Total: -1}}}
			ops := append(append([]GOp(nil), setup...), up, GOp{Kind: "Upload", Proto: "resumable", Bucket: "b1", Name: "huge/o", Data: []byte("abcd"), Meta: gcs.ObjMeta{ContentType: "text/plain"}})
			if ok, _ := tryGCS(c, "C02", gcsCase{Store: store, Ops: ops}, c02Tag); ok {
				c.Outcome(fmt.Sprintf("huge-total:%d", hi))
			}
		}
		item++
		if c.Mine(item) {
			ops := append(append([]GOp(nil), setup...), GOp{Kind: "ManySessions", Bucket: "b1", Name: "junk", GzN: 1100, Meta: gcs.ObjMeta{ContentType: "text/junk"}},
				GOp{Kind: "Upload2", Bucket: "b1", Name: "sess/a", Data: []byte("first-session"), Meta: gcs.ObjMeta{ContentType: "text/first", Metadata: map[string]string{"session": "A"}}, Name2: "sess/b", Data2: []byte("second")})
			if ok, _ := tryGCS(c, "C02", gcsCase{Store: store, Ops: ops, CheckFrom: len(ops) - 1}, c02Tag); ok {
				c.Outcome("after-many-sessions")
			}
		}
	}
	// Part F: objects stored WITH contentEncoding=gzip (the client uploaded compressed bytes and said so): downloaded by
	// a client that accepts gzip (bytes as stored) and by one that does not (decompressed on its behalf), through
	// every URL form; payloads that compress well, so that stored and served lengths differ
	plainF := []byte(strings.Repeat("compressible payload line\n", 400))
	for _, store := range stores {
		for _, proto := range []string{"multipart", "resumable"} {
			for _, form := range []string{"json", "download", "public"} {
				item++
				if !c.Mine(item) {
					continue
				}
				up := GOp{Kind: "Upload", Proto: proto, Bucket: "b1", Name: "enc/o.txt", Data: gcs.Gz(plainF), Meta: gcs.ObjMeta{ContentType: "text/plain", ContentEncoding: "gzip"}}
				ops := append(append([]GOp(nil), setup...), up,
					GOp{Kind: "Get", Bucket: "b1", Name: "enc/o.txt", Form: form},
					GOp{Kind: "Get", Bucket: "b1", Name: "enc/o.txt", Form: form, AcceptGzip: true},
					GOp{Kind: "GetMeta", Bucket: "b1", Name: "enc/o.txt"})
				if ok, _ := tryGCS(c, "C02", gcsCase{Store: store, Ops: ops}, c02Tag); ok {
					c.Outcome("gzip-encoded-object:" + form)
				}
			}
		}
	}
	c.Bound("names", c02Names)
	c.Bound("names_memory_store_only", c02NamesMem)
	c.Bound("payload_sizes", func() []int {
		var s []int
		for _, p := range payloads {
			s = append(s, len(p))
		}
		return append(s, len(large))
	}())
}
