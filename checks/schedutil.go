package checks

import (
	"encoding/json"
	"fmt"
	"strings"
	"time"

	"verif/fw"
	"verif/sched"
)

// schedRun is one controlled execution of a scenario: it builds fresh state, returns the thread
// bodies, an optional per-point hook, and a verdict function evaluated after the execution.
type schedInst struct {
	Threads []func()
	OnPoint func(t *sched.Thread)
	// Verdict returns a violation signature class ("" = fine), a detail text and an outcome label
	// (used to count distinct observed outcomes).
	Verdict func(x *sched.Exec) (class, detail, outcome string)
}

type schedScenario struct {
	Name  string
	Param json.RawMessage // whatever Build needs to re-create the scenario on replay
	Build func() *schedInst
}

type schedCase struct {
	Scenario string          `json:"scenario"`
	Param    json.RawMessage `json:"param,omitempty"`
	Choices  []int           `json:"choices"`
}

const schedMaxSteps = 20000

// runSchedOnce executes the scenario under the given schedule prefix.
func runSchedOnce(sc *schedScenario, prefix []int) (x *sched.Exec, class, detail, outcome string) {
	inst := sc.Build()
	x = sched.Run(prefix, schedMaxSteps, inst.OnPoint, inst.Threads...)
	if x.Diverged != "" {
		// The prefix was recorded by an earlier execution. Lazily built process-global state of the code
		// under test (a cache behind a mutex that this very prefix filled) can shift the points once;
		// a second attempt on a fresh instance finds that state settled. A divergence that persists
		// is nondeterminism the harness does not own: an internal error, never a verdict.
		inst = sc.Build()
		x = sched.Run(prefix, schedMaxSteps, inst.OnPoint, inst.Threads...)
	}
	switch {
	case x.Diverged != "":
		return x, "internal-divergence", x.Diverged, ""
	case x.NPanic > 0:
		// a panic inside a thread that the scenario did not recover itself; the scenario may excuse it
		// (e.g. a caller that broke the API contract in this execution)
		if inst.Verdict != nil {
			if _, _, o := runVerdict(inst, x); o == "excused" {
				return x, "", "", "excused"
			}
		}
		return x, "panic", x.Panics[0], "panic"
	case x.Horizon:
		return x, "livelock", fmt.Sprintf("execution exceeded %d scheduling points", schedMaxSteps), "horizon"
	case x.Deadlock:
		var bl []string
		for i, b := range x.Blocked {
			if b != "" {
				bl = append(bl, fmt.Sprintf("thread %d blocked at %s", i, b))
			}
		}
		// the scenario may still want to classify (e.g. which key)
		if inst.Verdict != nil {
			if cl, d, _ := runVerdict(inst, x); cl != "" && cl != "deadlock" && cl != "wedged" {
				return x, cl, d, "deadlock"
			}
		}
		return x, "deadlock", "no enabled thread: " + strings.Join(bl, "; "), "deadlock"
	}
	if inst.Verdict != nil {
		class, detail, outcome = runVerdict(inst, x)
	}
	return x, class, detail, outcome
}

// runVerdict evaluates the scenario's verdict (which usually begins with closing observations made
// through the real API) as a one-thread controlled execution: a closing request that can never
// complete - because the explored execution leaked a lock - is then a detected "no enabled thread"
// (class "wedged") instead of a hang of the checker.
func runVerdict(inst *schedInst, x *sched.Exec) (class, detail, outcome string) {
	vx := sched.Run(nil, 5_000_000, nil, func() { class, detail, outcome = inst.Verdict(x) })
	switch {
	case vx.Deadlock:
		return "wedged", "after the explored execution a closing request can never complete (a lock was left held): blocked at " + vx.Blocked[0], "wedged"
	case vx.NPanic > 0:
		return "panic", "panic during the closing observations: " + vx.Panics[0], "panic"
	case vx.Horizon:
		return "livelock", "the closing observations exceeded 5000000 scheduling points", "horizon"
	}
	return class, detail, outcome
}

// exploreScenario enumerates every schedule of the scenario within the preemption bound.
// Returns the number of executions.
func exploreScenario(c *fw.Ctx, id string, sc *schedScenario, bound int, maxExecs int64) int64 {
	e := &sched.Explorer{Bound: bound, MaxExecs: maxExecs, Deadline: c.Deadline}
	first := true
	e.Explore(func(prefix []int) *sched.Exec {
		x, class, detail, outcome := runSchedOnce(sc, prefix)
		c.Eval(1)
		c.Trace(1)
		c.Trans(int64(x.Steps))
		if outcome != "" {
			c.Outcome(sc.Name + ":" + outcome)
		}
		choices := x.Choices()
		c.State(fw.Hash(sc.Name, fmt.Sprint(choices)))
		if first {
			first = false
			c.Sample(map[string]interface{}{"scenario": sc.Name, "schedule_choices": choices, "scheduling_points": x.Steps, "outcome": outcome})
		}
		if class == "internal-divergence" {
			c.InternalError(fmt.Sprintf("%s/%s: %s", id, sc.Name, detail))
			e.Stop = true
			return x
		}
		if class != "" {
			cs := schedCase{Scenario: sc.Name, Param: sc.Param, Choices: choices}
			sig := fmt.Sprintf("%s:%s:%s", id, sc.Name, class)
			c.Violate(sig, detail+fmt.Sprintf("\n  scenario %s, schedule choices %v (%d scheduling points)", sc.Name, choices, x.Steps), cs, func() string {
				_, cl2, _, _ := runSchedOnce(sc, choices)
				if cl2 == "" {
					return ""
				}
				return fmt.Sprintf("%s:%s:%s", id, sc.Name, cl2)
			})
		}
		return x
	}, func(x *sched.Exec) {})
	if e.Capped {
		c.Incomplete(fmt.Sprintf("scenario %s: exploration capped (deadline or execution cap) after %d executions at preemption bound %d", sc.Name, e.Execs, bound))
	}
	return e.Execs
}

// selfCheckDeterminism replays one fixed schedule twice and requires identical decisions.
func selfCheckDeterminism(c *fw.Ctx, id string, sc *schedScenario) bool {
	// warm-up: process-global lazily built state of the code under test (e.g. a cache of compiled
	// regular expressions behind a mutex) is filled by the first execution of a scenario; every later
	// execution issues the same requests and finds it filled
	runSchedOnce(sc, nil)
	x1, _, _, o1 := runSchedOnce(sc, nil)
	x2, _, _, o2 := runSchedOnce(sc, x1.Choices())
	if fmt.Sprint(x1.Choices()) != fmt.Sprint(x2.Choices()) || x1.Steps != x2.Steps || o1 != o2 || x2.Diverged != "" {
		c.InternalError(fmt.Sprintf("%s/%s: replaying the default schedule was not deterministic (%d vs %d points, outcomes %q vs %q)", id, sc.Name, x1.Steps, x2.Steps, o1, o2))
		return false
	}
	return true
}

func schedBudget(quick, thorough time.Duration) func(string) time.Duration {
	return func(tier string) time.Duration {
		if tier == "thorough" {
			return thorough
		}
		return quick
	}
}
