package checks

import (
	"encoding/json"
	"fmt"
	"net/url"
	"os"
	"path/filepath"
	"reflect"
	"sort"
	"strconv"
	"strings"

	"github.com/fullstorydev/emulators/storage/gcsemu"

	"verif/fw"
	"verif/gcs"
	"verif/shim/vtime"
)

// GOp is one client-level GCS operation (possibly several HTTP requests).
type GOp struct {
	// AltType: what the secondary carrier of the content type says (see gcs.AltType)
	AltType string            `json:"alt_type,omitempty"`
	Kind    string            `json:"op"` // CreateBucket DeleteBucket Upload Get GetMeta Patch Delete Compose Copy List
	Bucket  string            `json:"b,omitempty"`
	Name    string            `json:"n,omitempty"`
	Proto   string            `json:"proto,omitempty"` // media | multipart | resumable
	Data    []byte            `json:"data,omitempty"`
	Meta    gcs.ObjMeta       `json:"meta,omitempty"`
	Gzip    bool              `json:"gzip,omitempty"`
	GzN     int               `json:"gzip_members,omitempty"` // >1: the compressed body consists of several gzip members
	Conds   map[string]string `json:"conds,omitempty"`        // symbolic values: cur other zero bad, or a literal number
	// resumable: chunk plan; nil = one chunk with the whole payload
	Chunks []GChunk `json:"chunks,omitempty"`
	No308  bool     `json:"no308,omitempty"`
	// RetryFinal: when the upload is rejected, the client sends its final request once more (same session for a
	// resumable upload): the answer must again not be a success and nothing may be stored
	RetryFinal bool `json:"retry_final,omitempty"`
	// StrayAfter: after the upload has completed, one more chunk is sent to the (finished) session; whatever the
	// answer, the stored object must not change
	StrayAfter bool `json:"stray_after,omitempty"`
	// Upload2: two resumable sessions A = (Name, Data) and B = (Name2, Data2), started one after the other and
	// continued chunk by chunk in alternation; A completes first
	// AcceptGzip: a media GET sent with "Accept-Encoding: gzip"
	AcceptGzip bool   `json:"accept_gzip,omitempty"`
	Name2      string `json:"name2,omitempty"`
	Data2      []byte `json:"data2,omitempty"`
	// a step run between the initiation of a resumable upload and its first chunk
	Between   *GOp            `json:"between,omitempty"`
	PatchBody json.RawMessage `json:"patch,omitempty"`
	Srcs      []GSrc          `json:"srcs,omitempty"`
	NoDest    bool            `json:"nodest,omitempty"`
	DstBucket string          `json:"db,omitempty"`
	DstName   string          `json:"dn,omitempty"`
	Form      string          `json:"form,omitempty"` // json | download | public
	Prefix    string          `json:"prefix,omitempty"`
	Delim     string          `json:"delim,omitempty"`
	MaxRes    string          `json:"max,omitempty"`
	Token     string          `json:"token,omitempty"`
}

type GChunk struct {
	Lo    int  `json:"lo"`              // offset of this chunk in the payload
	Hi    int  `json:"hi"`              // exclusive
	Total int  `json:"total"`           // -1 = unknown ("*")
	Query bool `json:"query,omitempty"` // status query: "bytes */<total|*>" with an empty body
	// BadLen: the body is one byte shorter than the range announces (a malformed chunk: must be refused and must not
	// change what the session has received)
	BadLen bool `json:"badlen,omitempty"`
}

type GSrc struct {
	Name string `json:"name"`
	Gen  string `json:"gen,omitempty"` // "" | cur | other
}

func (o GOp) String() string {
	c := ""
	if len(o.Conds) > 0 {
		var ks []string
		for k, v := range o.Conds {
			ks = append(ks, k+"="+v)
		}
		sort.Strings(ks)
		c = " if{" + strings.Join(ks, ",") + "}"
	}
	switch o.Kind {
	case "ManySessions":
		return fmt.Sprintf("ManySessions(%d sessions on %s/%s/<i>, one byte each, abandoned)", o.GzN, o.Bucket, o.Name)
	case "GetBucket":
		return fmt.Sprintf("GetBucket(%s)", o.Bucket)
	case "ClashRetry":
		return fmt.Sprintf("ClashRetry[%s](%s/%q blocked by %q, then %q deleted and the upload retried)", o.Proto, o.Bucket, o.Name, o.Name2, o.Name2)
	case "Upload":
		s := fmt.Sprintf("Upload[%s](%s/%q,%q,ct=%q", o.Proto, o.Bucket, o.Name, trunc(o.Data), o.Meta.ContentType)
		if o.Meta.Md5Hash != "" {
			s += ",md5=" + o.Meta.Md5Hash
		}
		if o.AltType != "" {
			s += ",part/header-type=" + o.AltType
		}
		if len(o.Meta.Metadata) > 0 {
			s += fmt.Sprintf(",meta=%v", o.Meta.Metadata)
		}
		if o.Gzip {
			s += ",gzip"
			if o.GzN > 1 {
				s += fmt.Sprintf("x%d", o.GzN)
			}
		}
		if o.Chunks != nil {
			s += fmt.Sprintf(",chunks=%v", o.Chunks)
		}
		if o.No308 {
			s += ",no308"
		}
		if o.Between != nil {
			s += ",between=" + o.Between.String()
		}
		return s + ")" + c
	case "Patch":
		return fmt.Sprintf("Patch(%s/%q,%s)%s", o.Bucket, o.Name, o.PatchBody, c)
	case "Compose":
		var ss []string
		for _, s := range o.Srcs {
			x := s.Name
			if s.Gen != "" {
				x += "@" + s.Gen
			}
			ss = append(ss, x)
		}
		return fmt.Sprintf("Compose(%s/%q <- [%s], dest=%+v)%s", o.Bucket, o.Name, strings.Join(ss, ","), o.Meta, c)
	case "Copy":
		if !reflect.DeepEqual(o.Meta, gcs.ObjMeta{}) {
			return fmt.Sprintf("Copy(%s/%q -> %s/%q, resource=%+v)", o.Bucket, o.Name, o.DstBucket, o.DstName, o.Meta)
		}
		return fmt.Sprintf("Copy(%s/%q -> %s/%q)", o.Bucket, o.Name, o.DstBucket, o.DstName)
	case "Get":
		return fmt.Sprintf("Get[%s](%s/%q)", o.Form, o.Bucket, o.Name)
	case "List":
		return fmt.Sprintf("List(%s,prefix=%q,delim=%q,max=%q,token=%q)", o.Bucket, o.Prefix, o.Delim, o.MaxRes, o.Token)
	}
	return fmt.Sprintf("%s(%s/%q)%s", o.Kind, o.Bucket, o.Name, c)
}

func trunc(b []byte) string {
	if len(b) > 24 {
		return fmt.Sprintf("%s…(%d bytes)", b[:24], len(b))
	}
	return string(b)
}

func GOpsString(ops []GOp) string {
	var ss []string
	for _, o := range ops {
		ss = append(ss, o.String())
	}
	return strings.Join(ss, " ; ")
}

// gcsWorld couples one real emulator instance with the reference model.
type gcsWorld struct {
	kind  string
	dir   string
	drv   *gcs.Driver
	model *gcs.Model
	// leniencies switched by individual checks
	skipState bool
	lastGen   map[string]int64
	trace     []string // HTTP exchange log of the last step (for reports)
	exch      []exchange
	restart   bool // C09: replace the emulator by a fresh instance on the same directory after every step
}

type exchange struct {
	Req  gcs.HTTPReq
	Resp gcs.HTTPResp
}

var gcsDirSeq int

func newGCSWorld(c *fw.Ctx, kind string, step int64, wrap func(gcsemu.Store) gcsemu.Store) *gcsWorld {
	w := &gcsWorld{kind: kind, model: gcs.NewModel(), lastGen: map[string]int64{}}
	if kind == "file" {
		gcsDirSeq++
		w.dir = filepath.Join(c.Scratch, fmt.Sprintf("gcs%d", gcsDirSeq))
		_ = os.MkdirAll(w.dir, 0o777)
	}
	if step <= 0 {
		step = 1
	}
	vtime.SetVirtual(1_700_000_000_000_000_000, step)
	w.drv = gcs.NewDriver(kind, w.dir, wrap)
	return w
}

func (w *gcsWorld) Close() {
	if w.dir != "" {
		_ = os.RemoveAll(w.dir)
	}
}

// Reopen replaces the emulator by a fresh instance on the same store directory (file store) –
// what a process restart between two requests is.
func (w *gcsWorld) Reopen() {
	w.drv = gcs.NewDriver(w.kind, w.dir, nil)
}

func (w *gcsWorld) do(r gcs.HTTPReq) gcs.HTTPResp {
	resp := w.drv.Do(r)
	w.exch = append(w.exch, exchange{r, resp})
	b := resp.Body
	if len(b) > 200 {
		b = b[:200]
	}
	w.trace = append(w.trace, fmt.Sprintf("%s -> %d %q", r.String(), resp.Status, b))
	return resp
}

// resolve turns symbolic condition values into concrete numbers against the model's current object.
func (w *gcsWorld) resolve(b, n string, conds map[string]string) map[string]string {
	if len(conds) == 0 {
		return nil
	}
	cur := w.model.View(b, n)
	out := map[string]string{}
	for k, v := range conds {
		meta := strings.Contains(k, "Metageneration")
		var c int64 = 7777
		if cur != nil {
			c = cur.Generation
			if meta {
				c = cur.Metageneration
			}
		}
		switch v {
		case "cur":
			out[k] = strconv.FormatInt(c, 10)
		case "other":
			out[k] = strconv.FormatInt(c+1, 10)
		case "zero":
			out[k] = "0"
		case "neg":
			out[k] = "-1"
		case "huge":
			out[k] = "9223372036854775807"
		case "below":
			// (zero is a value of its own - "must not exist" / not judged for the other parameters - so the
			// predecessor of 1 is replaced by another number)
			if c-1 == 0 {
				out[k] = strconv.FormatInt(c+2, 10)
			} else {
				out[k] = strconv.FormatInt(c-1, 10)
			}
		case "bad":
			out[k] = "abc"
		case "badesc": // sent unescaped (see gcs.condQuery): the current number followed by a broken percent escape
			out[k] = "RAW:" + strconv.FormatInt(c, 10) + "%zz"
		case "badesc2":
			out[k] = "RAW:0%2"
		case "badsemi":
			out[k] = "RAW:" + strconv.FormatInt(c, 10) + ";x=1"
		default:
			out[k] = v
		}
	}
	return out
}

func inInts(x int, xs []int) bool {
	for _, y := range xs {
		if x == y {
			return true
		}
	}
	return false
}

// checkErrBody: API-level errors carry a JSON error body whose code equals the HTTP status.
func checkErrBody(r gcs.HTTPResp) string {
	if r.Status < 400 {
		return ""
	}
	code, _, ok := gcs.APIError(r.Body)
	if !ok {
		return fmt.Sprintf("status %d without a JSON error body: %.120q", r.Status, r.Body)
	}
	if code != r.Status {
		return fmt.Sprintf("JSON error code %d differs from HTTP status %d", code, r.Status)
	}
	return ""
}

// Step executes one operation on the implementation and the model. It returns a description of
// the first disagreement ("" if none) and a coarse class.
func (w *gcsWorld) Step(o *GOp, check bool) (string, string) {
	w.trace = w.trace[:0]
	w.exch = w.exch[:0]
	m, cl := w.step(o)
	if m != "" {
		return m, cl
	}
	if w.restart {
		w.Reopen()
	}
	if check && !w.skipState {
		if m := w.CompareState(); m != "" {
			return "state after " + o.String() + ": " + m, "state"
		}
	}
	return "", ""
}

func (w *gcsWorld) step(o *GOp) (string, string) {
	mdl := w.model
	fail := func(class, f string, a ...interface{}) (string, string) {
		return fmt.Sprintf("%s: ", o.String()) + fmt.Sprintf(f, a...) + "\n   http: " + strings.Join(w.trace, "\n         "), class
	}
	switch o.Kind {
	case "CreateBucket":
		r := w.do(gcs.ReqCreateBucket(o.Bucket))
		if r.Panic != "" {
			return fail("panic", "panic: %s", r.Panic)
		}
		if r.Status != 200 {
			return fail("status", "status %d, want 200", r.Status)
		}
		if mdl.Buckets[o.Bucket] == nil {
			mdl.Buckets[o.Bucket] = map[string]*gcs.MObj{}
		}
		return "", ""
	case "GetBucket":
		r := w.do(gcs.ReqGetBucket(o.Bucket))
		if r.Panic != "" {
			return fail("panic", "panic: %s", r.Panic)
		}
		if mdl.Buckets[o.Bucket] == nil {
			if r.Status != 404 {
				return fail("status", "status %d %.80q, want 404: the bucket does not exist", r.Status, r.Body)
			}
			if e := checkErrBody(r); e != "" {
				return fail("errbody", "%s", e)
			}
			return "", ""
		}
		if r.Status != 200 {
			return fail("status", "status %d, want 200", r.Status)
		}
		var bk struct {
			Kind string `json:"kind"`
			Name string `json:"name"`
		}
		if err := json.Unmarshal(r.Body, &bk); err != nil || bk.Name != o.Bucket {
			return fail("body", "bucket resource %.120q does not name bucket %q", r.Body, o.Bucket)
		}
		return "", ""
	case "DeleteBucket":
		r := w.do(gcs.ReqDeleteBucket(o.Bucket))
		if r.Panic != "" {
			return fail("panic", "panic: %s", r.Panic)
		}
		want := 204
		if mdl.Buckets[o.Bucket] == nil {
			want = 404
		} else if len(mdl.Names(o.Bucket)) > 0 {
			// deleting a non-empty bucket: the statements are silent on whether it is refused (as the real service does)
			// or performed; either way the answer and the state must agree
			switch {
			case r.Status == 204:
				delete(mdl.Buckets, o.Bucket) // the bucket and everything in it are gone
			case r.Status >= 400:
				if e := checkErrBody(r); e != "" {
					return fail("errbody", "%s", e)
				}
			default:
				return fail("status", "status %d for the deletion of a non-empty bucket, want 204 or an error", r.Status)
			}
			return "", ""
		}
		if r.Status != want {
			return fail("status", "status %d, want %d", r.Status, want)
		}
		if want == 204 {
			delete(mdl.Buckets, o.Bucket)
		}
		return "", ""
	case "Upload":
		return w.stepUpload(o)
	case "Upload2":
		return w.stepUpload2(o)
	case "ClashRetry":
		return w.stepClashRetry(o)
	case "ManySessions":
		// o.GzN resumable sessions are opened, each receives one byte and is then abandoned: nothing is stored
		for i := 0; i < o.GzN; i++ {
			r := w.do(gcs.ReqResumableStart(o.Bucket, fmt.Sprintf("%s/%d", o.Name, i), o.Meta, nil))
			if r.Panic != "" || r.Status != 200 {
				return fail("status", "initiation %d: status %d %s", i, r.Status, r.Panic)
			}
			u, err := url.Parse(r.Header.Get("Location"))
			if err != nil || u.Query().Get("upload_id") == "" {
				return fail("session", "initiation %d: no usable session URL", i)
			}
			if c := w.do(gcs.ReqResumableChunk(u.RequestURI(), []byte("j"), "bytes 0-0/*", false, false)); c.Panic != "" || c.Status != 308 {
				return fail("status", "first byte of session %d: status %d %s, want 308", i, c.Status, c.Panic)
			}
			if len(w.trace) > 6 {
				w.trace = w.trace[len(w.trace)-6:]
			}
		}
		return "", ""
	case "Get":
		rq := gcs.ReqGetMedia(o.Form, o.Bucket, o.Name)
		if o.AcceptGzip {
			rq.Header = map[string]string{"Accept-Encoding": "gzip"}
		}
		r := w.do(rq)
		if r.Panic != "" {
			return fail("panic", "panic: %s", r.Panic)
		}
		obj := mdl.Get(o.Bucket, o.Name)
		if obj == nil {
			if r.Status != 404 {
				return fail("status", "status %d, want 404", r.Status)
			}
			if e := checkErrBody(r); e != "" {
				return fail("errbody", "%s", e)
			}
			return "", ""
		}
		if r.Status != 200 {
			return fail("status", "status %d, want 200", r.Status)
		}
		v := mdl.View(o.Bucket, o.Name)
		wantBody := obj.Content
		if v.ContentEncoding == "gzip" {
			// decompressive transcoding: stored gzip bytes are served as they are (marked Content-Encoding: gzip) to a
			// client that accepts gzip, and decompressed to one that does not
			if o.AcceptGzip {
				if ce := r.Header.Get("Content-Encoding"); ce != "gzip" {
					return fail("header", "object stored with contentEncoding=gzip, client accepts gzip: Content-Encoding header %q, want gzip", ce)
				}
			} else if plain, err := gcs.Gunzip(obj.Content); err == nil {
				wantBody = plain
			} else {
				return "", "" // stored bytes are not gzip data: what the server should send is not specified
			}
		}
		if string(r.Body) != string(wantBody) {
			return fail("content", "body %q, want %q", trunc(r.Body), trunc(wantBody))
		}
		if ct := r.Header.Get("Content-Type"); ct != v.ContentType {
			return fail("header", "Content-Type header %q, want %q", ct, v.ContentType)
		}
		if v.Generation == 0 {
			// generation not known to the model yet (object that appeared outside the API): adopt it
			if g, err := strconv.ParseInt(r.Header.Get("X-Goog-Generation"), 10, 64); err == nil {
				obj.V.Generation = g
				if g > mdl.MaxGen[o.Bucket+"/"+o.Name] {
					mdl.MaxGen[o.Bucket+"/"+o.Name] = g
				}
			}
		} else if g := r.Header.Get("X-Goog-Generation"); g != strconv.FormatInt(v.Generation, 10) {
			return fail("header", "X-Goog-Generation header %q, want %d", g, v.Generation)
		}
		if g := r.Header.Get("X-Goog-Metageneration"); v.Metageneration != 0 && g != strconv.FormatInt(v.Metageneration, 10) {
			return fail("header", "X-Goog-Metageneration header %q, want %d", g, v.Metageneration)
		}
		return "", ""
	case "GetMeta":
		r := w.do(gcs.ReqGetMeta(o.Bucket, o.Name))
		if r.Panic != "" {
			return fail("panic", "panic: %s", r.Panic)
		}
		want := mdl.View(o.Bucket, o.Name)
		if want == nil {
			if r.Status != 404 {
				return fail("status", "status %d, want 404", r.Status)
			}
			if e := checkErrBody(r); e != "" {
				return fail("errbody", "%s", e)
			}
			return "", ""
		}
		if r.Status != 200 {
			return fail("status", "status %d, want 200", r.Status)
		}
		got, err := gcs.ParseObject(r.Body)
		if err != nil {
			return fail("body", "cannot parse object: %v", err)
		}
		if d := gcs.DiffView(*got, *want, !mdl.Get(o.Bucket, o.Name).Composite); d != "" {
			return fail("meta", "metadata differs: %s", d)
		}
		if want.Generation == 0 {
			mo := mdl.Get(o.Bucket, o.Name)
			mo.V.Generation = got.Generation
			if got.Generation > mdl.MaxGen[o.Bucket+"/"+o.Name] {
				mdl.MaxGen[o.Bucket+"/"+o.Name] = got.Generation
			}
		}
		return "", ""
	case "Patch":
		conds := w.resolve(o.Bucket, o.Name, o.Conds)
		exp := mdl.ExpectPatch(o.Bucket, o.Name, o.PatchBody, conds)
		r := w.do(gcs.ReqPatch(o.Bucket, o.Name, o.PatchBody, conds))
		if r.Panic != "" {
			return fail("panic", "panic: %s", r.Panic)
		}
		if !inInts(r.Status, exp.Statuses) {
			return fail("status", "status %d, want one of %v", r.Status, exp.Statuses)
		}
		if r.Status >= 400 {
			if e := checkErrBody(r); e != "" {
				return fail("errbody", "%s", e)
			}
		}
		if exp.Performed {
			got, err := gcs.ParseObject(r.Body)
			if err != nil {
				return fail("body", "cannot parse object: %v", err)
			}
			if d := gcs.DiffView(*got, *exp.View, !mdl.Get(o.Bucket, o.Name).Composite); d != "" {
				return fail("resp", "patch response differs: %s", d)
			}
			mdl.CommitPatch(o.Bucket, o.Name, *exp.View)
		}
		return "", ""
	case "Delete":
		conds := w.resolve(o.Bucket, o.Name, o.Conds)
		exp := mdl.ExpectDelete(o.Bucket, o.Name, conds)
		r := w.do(gcs.ReqDelete(o.Bucket, o.Name, conds))
		if r.Panic != "" {
			return fail("panic", "panic: %s", r.Panic)
		}
		if !inInts(r.Status, exp.Statuses) {
			return fail("status", "status %d, want one of %v", r.Status, exp.Statuses)
		}
		if r.Status >= 400 {
			if e := checkErrBody(r); e != "" {
				return fail("errbody", "%s", e)
			}
		}
		if exp.Performed {
			mdl.CommitDelete(o.Bucket, o.Name)
		}
		return "", ""
	case "Compose":
		conds := w.resolve(o.Bucket, o.Name, o.Conds)
		var srcs []gcs.ComposeSrc
		var specs []gcs.SrcSpec
		for _, s := range o.Srcs {
			var g int64
			if s.Gen != "" {
				g = 4242
				if v := mdl.View(o.Bucket, s.Name); v != nil {
					g = v.Generation
				}
				if s.Gen == "other" {
					g++
				}
			}
			srcs = append(srcs, gcs.ComposeSrc{Name: s.Name, GenMatch: g})
			specs = append(specs, gcs.SrcSpec{Name: s.Name, GenMatch: g})
		}
		var dest *gcs.ObjMeta
		if !o.NoDest {
			dest = &o.Meta
		}
		exp := mdl.ExpectCompose(o.Bucket, o.Name, specs, dest, conds)
		r := w.do(gcs.ReqCompose(o.Bucket, o.Name, srcs, dest, conds))
		if r.Panic != "" {
			return fail("panic", "panic: %s", r.Panic)
		}
		if exp.Ambiguous != "" {
			return "", "ambiguous"
		}
		if !inInts(r.Status, exp.Statuses) {
			return fail("status", "status %d, want one of %v", r.Status, exp.Statuses)
		}
		if r.Status >= 400 {
			if e := checkErrBody(r); e != "" {
				return fail("errbody", "%s", e)
			}
		}
		if exp.Performed {
			got, err := gcs.ParseObject(r.Body)
			if err != nil {
				return fail("body", "cannot parse object: %v", err)
			}
			if d := gcs.DiffView(*got, *exp.View, false); d != "" {
				return fail("resp", "compose response differs: %s", d)
			}
			if bad := mdl.CommitWrite(o.Bucket, o.Name, exp.Body, *exp.View, true, got.Generation); bad != "" {
				return fail("generation", "%s", bad)
			}
		}
		return "", ""
	case "Copy":
		exp := mdl.ExpectCopy(o.Bucket, o.Name, o.DstBucket, o.DstName)
		req := gcs.ReqCopy(o.Bucket, o.Name, o.DstBucket, o.DstName)
		withBody := !reflect.DeepEqual(o.Meta, gcs.ObjMeta{})
		if withBody {
			req = gcs.ReqCopyWith(o.Bucket, o.Name, o.DstBucket, o.DstName, o.Meta)
		}
		r := w.do(req)
		if r.Panic != "" {
			return fail("panic", "panic: %s", r.Panic)
		}
		if !inInts(r.Status, exp.Statuses) {
			return fail("status", "status %d, want one of %v", r.Status, exp.Statuses)
		}
		if r.Status >= 400 {
			if e := checkErrBody(r); e != "" {
				return fail("errbody", "%s", e)
			}
			return "", ""
		}
		var rr struct {
			Done                bool            `json:"done"`
			TotalBytesRewritten json.Number     `json:"totalBytesRewritten"`
			ObjectSize          json.Number     `json:"objectSize"`
			Resource            json.RawMessage `json:"resource"`
		}
		if err := json.Unmarshal(r.Body, &rr); err != nil {
			return fail("body", "cannot parse rewrite response: %v", err)
		}
		got, err := gcs.ParseObject(rr.Resource)
		if err != nil {
			return fail("body", "cannot parse rewrite resource: %v", err)
		}
		n := strconv.Itoa(len(exp.Body))
		num := func(j json.Number) string { // an omitted count is 0 (JSON omits zero values)
			if j.String() == "" {
				return "0"
			}
			return j.String()
		}
		if !rr.Done || num(rr.TotalBytesRewritten) != n || num(rr.ObjectSize) != n {
			return fail("resp", "rewrite response done=%v totalBytesRewritten=%s objectSize=%s, want done, %s, %s", rr.Done, rr.TotalBytesRewritten, rr.ObjectSize, n, n)
		}
		srcComposite := mdl.Get(o.Bucket, o.Name).Composite
		if d := gcs.DiffView(*got, *exp.View, !srcComposite); d != "" {
			// a rewrite whose body names fields for the destination: the statements leave open whether they are honoured. Accepted:
			// the plain clone, or the clone with the named fields replaced (metadata map replaced or merged) - in every case ONE
			// new version (metageneration 1) with the source's content
			ok := false
			if withBody {
				for _, merge := range []bool{false, true} {
					v := *exp.View
					v.Metadata = copyStrMap(exp.View.Metadata)
					if o.Meta.ContentType != "" {
						v.ContentType = o.Meta.ContentType
					}
					if o.Meta.CacheControl != "" {
						v.CacheControl = o.Meta.CacheControl
					}
					if o.Meta.ContentDisposition != "" {
						v.ContentDisposition = o.Meta.ContentDisposition
					}
					if o.Meta.ContentLanguage != "" {
						v.ContentLanguage = o.Meta.ContentLanguage
					}
					if o.Meta.ContentEncoding != "" {
						v.ContentEncoding = o.Meta.ContentEncoding
					}
					if o.Meta.Metadata != nil {
						if !merge || v.Metadata == nil {
							v.Metadata = map[string]string{}
						}
						for k, x := range o.Meta.Metadata {
							v.Metadata[k] = x
						}
					}
					if gcs.DiffView(*got, v, !srcComposite) == "" {
						ok = true
						*exp.View = v
						break
					}
				}
			}
			if !ok {
				return fail("resp", "rewrite resource differs: %s", d)
			}
		}
		if bad := mdl.CommitWrite(o.DstBucket, o.DstName, exp.Body, *exp.View, srcComposite, got.Generation); bad != "" {
			return fail("generation", "%s", bad)
		}
		return "", ""
	case "List":
		return w.stepList(o)
	case "DropSidecar":
		// external removal of the metadata sidecar of an object (file store): the content file must still be served
		obj := mdl.Get(o.Bucket, o.Name)
		if obj == nil || w.dir == "" {
			return "", ""
		}
		if err := os.Remove(filepath.Join(w.dir, o.Bucket, o.Name) + ".emumeta"); err != nil && !os.IsNotExist(err) {
			return fail("internal", "cannot remove sidecar: %v", err)
		}
		obj.V = gcs.ObjView{Generation: obj.V.Generation} // metadata is gone; content, size and generation stay
		obj.Composite = true                              // MD5 lived in the sidecar: not constrained any more
		return "", ""
	case "BareFile":
		// a bare content file dropped into the bucket directory (legacy layout) must be served as an object
		if w.dir == "" || mdl.Buckets[o.Bucket] == nil || mdl.Get(o.Bucket, o.Name) != nil {
			return "", ""
		}
		p := filepath.Join(w.dir, o.Bucket, o.Name)
		_ = os.MkdirAll(filepath.Dir(p), 0o777)
		if err := os.WriteFile(p, o.Data, 0o666); err != nil {
			return fail("internal", "cannot write bare file: %v", err)
		}
		mdl.Buckets[o.Bucket][o.Name] = &gcs.MObj{Content: append([]byte(nil), o.Data...), Composite: true}
		return "", ""
	}
	return fail("internal", "unknown op kind")
}

func (w *gcsWorld) stepUpload(o *GOp) (string, string) {
	gcs.AltType = o.AltType
	defer func() { gcs.AltType = "" }()
	mdl := w.model
	fail := func(class, f string, a ...interface{}) (string, string) {
		return fmt.Sprintf("%s: ", o.String()) + fmt.Sprintf(f, a...) + "\n   http: " + strings.Join(w.trace, "\n         "), class
	}
	conds := w.resolve(o.Bucket, o.Name, o.Conds)
	gcs.GzipMembers = 1
	if o.GzN > 1 {
		gcs.GzipMembers = o.GzN
	}
	defer func() { gcs.GzipMembers = 1 }()
	var final gcs.HTTPResp
	var lastReq gcs.HTTPReq
	haveLast := false
	switch o.Proto {
	case "media":
		final = w.do(gcs.ReqUploadMedia(o.Bucket, o.Name, o.Data, o.Meta, conds, o.Gzip))
	case "multipart":
		final = w.do(gcs.ReqUploadMultipart(o.Bucket, o.Name, o.Data, o.Meta, conds, o.Gzip))
	case "resumable":
		r := w.do(gcs.ReqResumableStart(o.Bucket, o.Name, o.Meta, conds))
		if r.Panic != "" {
			return fail("panic", "panic: %s", r.Panic)
		}
		if cr := gcs.EvalConds(nil, conds); cr.Bad {
			if r.Status != 400 {
				return fail("status", "initiation status %d, want 400 (unparsable condition)", r.Status)
			}
			return "", ""
		}
		if r.Status != 200 {
			return fail("status", "initiation status %d, want 200", r.Status)
		}
		loc := r.Header.Get("Location")
		u, err := url.Parse(loc)
		if err != nil || u.Query().Get("upload_id") == "" {
			return fail("session", "initiation answered Location %q from which a client cannot take a session (upload_id)", loc)
		}
		session := u.RequestURI()
		if o.Between != nil {
			if m, cl := w.step(o.Between); m != "" {
				return m, cl
			}
		}
		chunks := o.Chunks
		if chunks == nil {
			chunks = []GChunk{{Lo: 0, Hi: len(o.Data), Total: len(o.Data)}}
		}
		recv := []byte{}
		done := false
		for i, ch := range chunks {
			var body []byte
			var cr string
			tot := "*"
			if ch.Total >= 0 {
				tot = strconv.Itoa(ch.Total)
			}
			if ch.Query || ch.Hi <= ch.Lo {
				cr = "bytes */" + tot
			} else {
				body = o.Data[ch.Lo:ch.Hi]
				cr = fmt.Sprintf("bytes %d-%d/%s", ch.Lo, ch.Hi-1, tot)
			}
			// model of the session: truncate to lo, append
			wantStatus := 0
			if ch.BadLen && body != nil && len(body) >= 2 {
				resp := w.do(gcs.ReqResumableChunk(session, body[:len(body)-1], cr, o.No308, false))
				if resp.Panic != "" {
					return fail("panic", "panic: %s", resp.Panic)
				}
				if resp.Status/100 == 2 || resp.Status == 308 {
					return fail("status", "chunk %d announces %d bytes but carries %d: status %d, want a refusal", i, len(body), len(body)-1, resp.Status)
				}
				continue // nothing received
			}
			if body != nil {
				if ch.Lo > len(recv) {
					wantStatus = 400
				} else {
					recv = append(recv[:ch.Lo], body...)
				}
			}
			lastReq = gcs.ReqResumableChunk(session, body, cr, o.No308, o.Gzip)
			haveLast = true
			resp := w.do(lastReq)
			if resp.Panic != "" {
				return fail("panic", "panic: %s", resp.Panic)
			}
			if wantStatus == 400 {
				if resp.Status != 400 {
					return fail("status", "chunk %d leaves a gap: status %d, want 400", i, resp.Status)
				}
				continue
			}
			complete := ch.Total >= 0 && len(recv) >= ch.Total
			if !complete {
				st := resp.Status
				if o.No308 {
					if st != 200 || resp.Header.Get("X-Http-Status-Code-Override") != "308" {
						return fail("status", "chunk %d: status %d override %q, want 200 with X-Http-Status-Code-Override: 308", i, st, resp.Header.Get("X-Http-Status-Code-Override"))
					}
				} else if st != 308 {
					return fail("status", "chunk %d: status %d, want 308 (incomplete)", i, st)
				}
				if len(recv) > 0 {
					if rg, want := resp.Header.Get("Range"), fmt.Sprintf("bytes=0-%d", len(recv)-1); rg != want {
						return fail("header", "chunk %d: Range header %q, want %q", i, rg, want)
					}
				} else if rg := resp.Header.Get("Range"); rg != "" {
					return fail("header", "chunk %d: nothing has been received yet, but the answer carries the Range header %q", i, rg)
				}
				continue
			}
			final = resp
			done = true
			if i != len(chunks)-1 {
				return fail("internal", "chunk plan continues after completion")
			}
		}
		if !done {
			// the plan ends without completing the upload: nothing must have been stored
			return "", ""
		}
		if string(recv) != string(o.Data) {
			return fail("internal", "chunk plan does not reassemble the payload")
		}
		if o.StrayAfter && final.Status == 200 {
			if r2 := w.do(gcs.ReqResumableChunk(session, []byte("XXXX"), "bytes 0-3/*", false, false)); r2.Panic != "" {
				return fail("panic", "panic on a chunk sent to the finished session: %s", r2.Panic)
			}
		}
	default:
		return fail("internal", "unknown protocol")
	}
	if final.Panic != "" {
		return fail("panic", "panic: %s", final.Panic)
	}
	exp := mdl.ExpectUpload(o.Bucket, o.Name, o.Data, o.Meta, conds)
	if !inInts(final.Status, exp.Statuses) {
		return fail("status", "status %d, want one of %v", final.Status, exp.Statuses)
	}
	if final.Status >= 400 {
		if e := checkErrBody(final); e != "" {
			return fail("errbody", "%s", e)
		}
	}
	if o.RetryFinal && !exp.Performed && haveLast {
		r2 := w.do(lastReq)
		if r2.Panic != "" {
			return fail("panic", "panic on the re-sent final request: %s", r2.Panic)
		}
		if r2.Status/100 == 2 && r2.Header.Get("X-Http-Status-Code-Override") == "" {
			return fail("retry", "the upload was rejected with %d, the same final request sent again is answered %d", final.Status, r2.Status)
		}
	}
	if exp.Performed {
		got, err := gcs.ParseObject(final.Body)
		if err != nil {
			return fail("body", "cannot parse object: %v", err)
		}
		if d := gcs.DiffView(*got, *exp.View, true); d != "" {
			return fail("resp", "upload response differs: %s", d)
		}
		if g := final.Header.Get("X-Goog-Generation"); g != strconv.FormatInt(got.Generation, 10) {
			return fail("header", "x-goog-generation header %q differs from the body's generation %d", g, got.Generation)
		}
		if g := final.Header.Get("X-Goog-Metageneration"); g != "1" {
			return fail("header", "x-goog-metageneration header %q, want 1", g)
		}
		if bad := mdl.CommitWrite(o.Bucket, o.Name, o.Data, *exp.View, false, got.Generation); bad != "" {
			return fail("generation", "%s", bad)
		}
	}
	return "", ""
}

// stepUpload2 drives two resumable upload sessions in alternation (see GOp.Name2).
func (w *gcsWorld) stepUpload2(o *GOp) (string, string) {
	mdl := w.model
	fail := func(class, f string, a ...interface{}) (string, string) {
		return fmt.Sprintf("%s: ", o.String()) + fmt.Sprintf(f, a...) + "\n   http: " + strings.Join(w.trace, "\n         "), class
	}
	type sess struct {
		name string
		data []byte
		meta gcs.ObjMeta
		uri  string
	}
	ss := []*sess{{name: o.Name, data: o.Data, meta: o.Meta}, {name: o.Name2, data: o.Data2, meta: gcs.ObjMeta{ContentType: "text/second", Metadata: map[string]string{"session": "B"}}}}
	for _, s := range ss {
		r := w.do(gcs.ReqResumableStart(o.Bucket, s.name, s.meta, nil))
		if r.Panic != "" || r.Status != 200 {
			return fail("status", "initiation of %q: status %d %s", s.name, r.Status, r.Panic)
		}
		u, err := url.Parse(r.Header.Get("Location"))
		if err != nil || u.Query().Get("upload_id") == "" {
			return fail("session", "no usable session URL for %q", s.name)
		}
		s.uri = u.RequestURI()
	}
	if ss[0].uri == ss[1].uri {
		return fail("session", "two initiations got the same session URL %q", ss[0].uri)
	}
	// first halves, alternating; then the rest of A (completes), then the rest of B (completes)
	half := func(s *sess) int { return (len(s.data) + 1) / 2 }
	for _, s := range ss {
		h := half(s)
		if h == 0 || h == len(s.data) {
			continue
		}
		r := w.do(gcs.ReqResumableChunk(s.uri, s.data[:h], fmt.Sprintf("bytes 0-%d/*", h-1), false, false))
		if r.Panic != "" || r.Status != 308 {
			return fail("status", "first chunk of %q: status %d %s, want 308", s.name, r.Status, r.Panic)
		}
		if rg, want := r.Header.Get("Range"), fmt.Sprintf("bytes=0-%d", h-1); rg != want {
			return fail("header", "first chunk of %q: Range header %q, want %q", s.name, rg, want)
		}
	}
	for _, s := range ss {
		h := half(s)
		if h == len(s.data) {
			h = 0
		}
		cr := fmt.Sprintf("bytes %d-%d/%d", h, len(s.data)-1, len(s.data))
		if len(s.data) == h {
			cr = fmt.Sprintf("bytes */%d", len(s.data))
		}
		r := w.do(gcs.ReqResumableChunk(s.uri, s.data[h:], cr, false, false))
		if r.Panic != "" {
			return fail("panic", "panic: %s", r.Panic)
		}
		exp := mdl.ExpectUpload(o.Bucket, s.name, s.data, s.meta, nil)
		if !inInts(r.Status, exp.Statuses) || !exp.Performed {
			return fail("status", "final chunk of %q: status %d, want one of %v", s.name, r.Status, exp.Statuses)
		}
		got, err := gcs.ParseObject(r.Body)
		if err != nil {
			return fail("body", "cannot parse object: %v", err)
		}
		if d := gcs.DiffView(*got, *exp.View, true); d != "" {
			return fail("resp", "upload response of %q differs: %s", s.name, d)
		}
		if bad := mdl.CommitWrite(o.Bucket, s.name, s.data, *exp.View, false, got.Generation); bad != "" {
			return fail("generation", "%s", bad)
		}
	}
	return "", ""
}

// stepClashRetry: the object Name2 exists and makes Name unrepresentable in a file system (one is a directory of
// the other). The upload of Name is attempted (it cannot succeed on the file store; how it fails is not judged),
// the blocker is deleted - from here on Name is an ordinary name - and the upload is tried again: by a new request
// (Proto media | multipart | resumable) or, Proto "session", by re-sending the final chunk of the SAME resumable
// session, which is what a client does after a 5xx answer. The retry either stores the object exactly as the model
// says or fails leaving nothing behind; afterwards the ordinary state comparison applies.
func (w *gcsWorld) stepClashRetry(o *GOp) (string, string) {
	mdl := w.model
	fail := func(class, f string, a ...interface{}) (string, string) {
		return fmt.Sprintf("%s: ", o.String()) + fmt.Sprintf(f, a...) + "\n   http: " + strings.Join(w.trace, "\n         "), class
	}
	if mdl.View(o.Bucket, o.Name2) == nil {
		return fail("internal", "the blocking object does not exist")
	}
	cr := fmt.Sprintf("bytes 0-%d/%d", len(o.Data)-1, len(o.Data))
	meta := o.Meta
	if o.Proto == "media" {
		meta = gcs.ObjMeta{ContentType: o.Meta.ContentType} // the simple upload carries nothing but the content type
	}
	var uri string
	attempt := func() gcs.HTTPResp {
		switch o.Proto {
		case "media":
			return w.do(gcs.ReqUploadMedia(o.Bucket, o.Name, o.Data, meta, nil, false))
		case "multipart":
			return w.do(gcs.ReqUploadMultipart(o.Bucket, o.Name, o.Data, meta, nil, false))
		}
		if uri == "" || o.Proto == "resumable" {
			r := w.do(gcs.ReqResumableStart(o.Bucket, o.Name, meta, nil))
			if r.Panic != "" || r.Status != 200 {
				return r
			}
			u, err := url.Parse(r.Header.Get("Location"))
			if err != nil || u.Query().Get("upload_id") == "" {
				return gcs.HTTPResp{Status: -1, Panic: "no usable session URL"}
			}
			uri = u.RequestURI()
		}
		return w.do(gcs.ReqResumableChunk(uri, o.Data, cr, false, false))
	}
	r1 := attempt()
	if r1.Panic != "" {
		return fail("panic", "first attempt: %s", r1.Panic)
	}
	if r1.Status < 400 {
		return fail("clash-status", "the object cannot exist next to %q, but its upload is answered %d", o.Name2, r1.Status)
	}
	del := GOp{Kind: "Delete", Bucket: o.Bucket, Name: o.Name2}
	if m, cl := w.step(&del); m != "" {
		return m, cl
	}
	r2 := attempt()
	if r2.Panic != "" {
		return fail("panic", "retry: %s", r2.Panic)
	}
	exp := mdl.ExpectUpload(o.Bucket, o.Name, o.Data, meta, nil)
	if r2.Status >= 400 && o.Proto == "session" {
		return "", "" // the session did not survive the failed attempt: nothing may have been stored (state comparison)
	}
	if !inInts(r2.Status, exp.Statuses) || !exp.Performed {
		return fail("status", "retry after the blocker is gone: status %d %.200s, want one of %v", r2.Status, r2.Body, exp.Statuses)
	}
	got, err := gcs.ParseObject(r2.Body)
	if err != nil {
		return fail("body", "cannot parse object: %v", err)
	}
	if d := gcs.DiffView(*got, *exp.View, true); d != "" {
		return fail("resp", "response of the retried upload differs: %s", d)
	}
	if bad := mdl.CommitWrite(o.Bucket, o.Name, o.Data, *exp.View, false, got.Generation); bad != "" {
		return fail("generation", "%s", bad)
	}
	// no bucket appears out of nowhere (e.g. one named like the first segment of the object name)
	for _, bn := range []string{o.Name, strings.SplitN(o.Name, "/", 2)[0]} {
		if _, ok := mdl.Buckets[bn]; !ok && !strings.Contains(bn, "/") {
			if r := w.do(gcs.ReqGetBucket(bn)); r.Status == 200 {
				return fail("phantom-bucket", "a bucket %q exists that nobody created", bn)
			}
		}
	}
	return "", ""
}

// followList follows nextPageToken to the end; returns the concatenated items/prefixes and the
// per-page sizes, or an error description.
func (w *gcsWorld) followList(b, prefix, delim, maxRes string, limitPages int) (items []gcs.ObjView, prefixes []string, pages []int, status int, bad string) {
	token := ""
	for p := 0; ; p++ {
		q := url.Values{}
		if prefix != "" {
			q.Set("prefix", prefix)
		}
		if delim != "" {
			q.Set("delimiter", delim)
		}
		if maxRes != "" {
			q.Set("maxResults", maxRes)
		}
		if token != "" {
			q.Set("pageToken", token)
		}
		r := w.do(gcs.ReqList(b, q))
		if r.Panic != "" {
			return nil, nil, nil, 0, "panic: " + r.Panic
		}
		if r.Status != 200 {
			return items, prefixes, pages, r.Status, ""
		}
		pg, err := gcs.ParseList(r.Body)
		if err != nil {
			return nil, nil, nil, 200, "cannot parse listing: " + err.Error()
		}
		items = append(items, pg.Items...)
		prefixes = append(prefixes, pg.Prefixes...)
		pages = append(pages, len(pg.Items)+len(pg.Prefixes))
		if pg.Next == "" {
			return items, prefixes, pages, 200, ""
		}
		if p >= limitPages {
			return items, prefixes, pages, 200, fmt.Sprintf("page chain does not end within %d pages", limitPages)
		}
		token = pg.Next
	}
}

func (w *gcsWorld) stepList(o *GOp) (string, string) {
	fail := func(class, f string, a ...interface{}) (string, string) {
		return fmt.Sprintf("%s: ", o.String()) + fmt.Sprintf(f, a...), class
	}
	mdl := w.model
	if o.Token != "" {
		// a literal (malformed) token
		q := url.Values{"pageToken": {o.Token}}
		r := w.do(gcs.ReqList(o.Bucket, q))
		if r.Panic != "" {
			return fail("panic", "panic: %s", r.Panic)
		}
		if r.Status != 400 {
			return fail("status", "malformed page token: status %d, want 400", r.Status)
		}
		return "", ""
	}
	if o.MaxRes != "" {
		if n, err := strconv.Atoi(o.MaxRes); err != nil || n < 1 {
			r := w.do(gcs.ReqList(o.Bucket, url.Values{"maxResults": {o.MaxRes}}))
			if r.Panic != "" {
				return fail("panic", "panic: %s", r.Panic)
			}
			if r.Status != 400 {
				return fail("status", "malformed maxResults: status %d, want 400", r.Status)
			}
			return "", ""
		}
	}
	nNames := len(mdl.Buckets[o.Bucket])
	items, prefixes, pages, status, bad := w.followList(o.Bucket, o.Prefix, o.Delim, o.MaxRes, nNames+2)
	if mdl.Buckets[o.Bucket] == nil {
		if status != 404 {
			return fail("status", "missing bucket: status %d, want 404", status)
		}
		return "", ""
	}
	if bad != "" {
		return fail("pages", "%s (pages so far: %v)", bad, pages)
	}
	if status != 200 {
		return fail("status", "status %d, want 200", status)
	}
	wantItems, wantPrefixes := mdl.Listing(o.Bucket, o.Prefix, o.Delim)
	var gotNames []string
	for _, it := range items {
		gotNames = append(gotNames, it.Name)
	}
	if fmt.Sprintf("%q", gotNames) != fmt.Sprintf("%q", wantItems) {
		return fail("items", "items over the page chain %q, want %q (pages %v)", gotNames, wantItems, pages)
	}
	if fmt.Sprintf("%q", prefixes) != fmt.Sprintf("%q", wantPrefixes) {
		return fail("prefixes", "prefixes over the page chain %q, want %q (pages %v)", prefixes, wantPrefixes, pages)
	}
	if o.MaxRes != "" {
		mx, _ := strconv.Atoi(o.MaxRes)
		for i, n := range pages {
			if n > mx {
				return fail("pagesize", "page %d holds %d entries > maxResults %d", i, n, mx)
			}
		}
	}
	for _, it := range items {
		want := mdl.View(o.Bucket, it.Name)
		if d := gcs.DiffView(it, *want, !mdl.Get(o.Bucket, it.Name).Composite); d != "" {
			return fail("itemmeta", "item %q metadata differs from the object's metadata: %s", it.Name, d)
		}
	}
	return "", ""
}

// CompareState compares every bucket and object the model knows (metadata GET, media GET and an
// unpaginated listing compared as a SET of names – order and paging are C11's subject).
func (w *gcsWorld) CompareState() string {
	mdl := w.model
	for b := range mdl.Buckets {
		r := w.drv.Do(gcs.ReqGetBucket(b))
		if r.Panic != "" {
			return "panic in bucket GET: " + r.Panic
		}
		if r.Status != 200 {
			return fmt.Sprintf("bucket %s: status %d, want 200", b, r.Status)
		}
		lr := w.drv.Do(gcs.ReqList(b, url.Values{"maxResults": {"100000"}}))
		if lr.Panic != "" {
			return "panic in listing: " + lr.Panic
		}
		if lr.Status != 200 {
			return fmt.Sprintf("listing of %s: status %d", b, lr.Status)
		}
		pg, err := gcs.ParseList(lr.Body)
		if err != nil {
			return "cannot parse listing: " + err.Error()
		}
		var got []string
		for _, it := range pg.Items {
			got = append(got, it.Name)
		}
		sort.Strings(got)
		if want := mdl.Names(b); fmt.Sprintf("%q", got) != fmt.Sprintf("%q", want) {
			return fmt.Sprintf("objects of bucket %s: listed %q, want %q", b, got, want)
		}
		// what the listing says about an object is what its metadata GET says (both are compared with the model)
		for _, it := range pg.Items {
			if want := mdl.View(b, it.Name); want != nil {
				if d := gcs.DiffView(it, *want, !mdl.Get(b, it.Name).Composite); d != "" {
					return fmt.Sprintf("listing of bucket %s, item %q differs from the object: %s", b, it.Name, d)
				}
			}
		}
		for _, n := range mdl.Names(b) {
			o := GOp{Kind: "GetMeta", Bucket: b, Name: n}
			if m, _ := w.step(&o); m != "" {
				return m
			}
			o = GOp{Kind: "Get", Bucket: b, Name: n, Form: "json"}
			if m, _ := w.step(&o); m != "" {
				return m
			}
		}
	}
	return ""
}

// Hash: canonical (model state with generations abstracted to per-name rank is implied by the
// model's StateString; the implementation's observable state equals it after CompareState).
func (w *gcsWorld) Hash() uint64 { return fw.Hash(w.model.StateString()) }

func copyStrMap(m map[string]string) map[string]string {
	if m == nil {
		return nil
	}
	out := make(map[string]string, len(m))
	for k, v := range m {
		out[k] = v
	}
	return out
}
