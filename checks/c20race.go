package checks

import (
	"context"
	"encoding/json"
	"fmt"
	"net/url"
	"os"
	"path/filepath"
	"regexp"
	"slices"
	"sort"
	"strings"
	"time"

	"cloud.google.com/go/bigtable"
	btapb "cloud.google.com/go/bigtable/admin/apiv2/adminpb"
	btpb "cloud.google.com/go/bigtable/apiv2/bigtablepb"
	"github.com/fullstorydev/emulators/bigtable/bttest"
	"github.com/fullstorydev/emulators/storage/gcsemu"
	"google.golang.org/grpc/metadata"
	"google.golang.org/protobuf/proto"

	"verif/bt"
	"verif/fw"
	"verif/gcs"
	"verif/sched"
	"verif/shim/vos"
	"verif/shim/vtime"
)

// C20, concurrent half: request mixes under the controlled scheduler; in race builds the
// scheduler's hand-off creates no happens-before edge, so the race detector judges every
// explored schedule by the program's own synchronisation only.

type c20Param struct {
	Side    string   `json:"side"`  // bt | gcs
	Store   string   `json:"store"` // engine / store
	Threads []string `json:"threads"`
	Fix     string   `json:"fixture,omitempty"` // "" | wide: 300 rows x 12 cells (a multi-level btree, a scan of four messages)
}

func (p c20Param) name() string {
	f := ""
	if p.Fix != "" {
		f = "+" + p.Fix
	}
	return fmt.Sprintf("%s:%s%s:%s", p.Side, p.Store, f, strings.Join(p.Threads, "|"))
}

// ---- Bigtable: direct calls with prebuilt requests (no shared harness state between threads) ---------

type nullStream struct{ ctx context.Context }

func (nullStream) SetHeader(metadata.MD) error  { return nil }
func (nullStream) SendHeader(metadata.MD) error { return nil }
func (nullStream) SetTrailer(metadata.MD)       {}
func (n nullStream) Context() context.Context   { return context.Background() }
func (nullStream) SendMsg(interface{}) error    { return nil }
func (nullStream) RecvMsg(interface{}) error    { return nil }

type rrStream struct {
	nullStream
	n int
}

//go:norace
func c20Yield(tag string) {
	if t := sched.Cur(); t != nil {
		t.Point(tag)
	}
}

func (s *rrStream) Send(m *btpb.ReadRowsResponse) error {
	if _, err := proto.Marshal(m); err != nil {
		panic(err)
	}
	s.n++
	c20Yield("Send")
	return nil
}

type mrStream struct{ nullStream }

func (s *mrStream) Send(m *btpb.MutateRowsResponse) error {
	_, _ = proto.Marshal(m)
	c20Yield("Send")
	return nil
}

type skStream struct{ nullStream }

func (s *skStream) Send(m *btpb.SampleRowKeysResponse) error {
	_, _ = proto.Marshal(m)
	c20Yield("Send")
	return nil
}

var c20BtOps = []string{"CreateTable", "CreateExisting", "DeleteTable", "GetTable", "ListTables", "ModifyCreate", "ModifyUpdate", "ModifyDrop",
	"DropPrefix", "DropAll", "GenToken", "CheckConsistency", "MutateRow", "MutateRows", "CheckAndMutate", "RMW", "ReadSmall", "ReadBig", "SampleRowKeys", "GC"}

func c20BtThread(S *bttest.VerifServer, d *bt.Driver, name string) func() {
	ctx := context.Background()
	mar := func(m proto.Message, err error) {
		if err == nil && m != nil {
			if _, e := proto.Marshal(m); e != nil {
				panic(e)
			}
		}
	}
	set := func(f, q string, ts int64, v string) *btpb.Mutation {
		return &btpb.Mutation{Mutation: &btpb.Mutation_SetCell_{SetCell: &btpb.Mutation_SetCell{FamilyName: f, ColumnQualifier: []byte(q), TimestampMicros: ts, Value: []byte(v)}}}
	}
	switch name {
	case "CreateTable":
		return func() {
			mar(S.CreateTable(ctx, &btapb.CreateTableRequest{Parent: parentI, TableId: "u", Table: &btapb.Table{ColumnFamilies: map[string]*btapb.ColumnFamily{"f": {}}}}))
		}
	case "CreateExisting":
		return func() {
			mar(S.CreateTable(ctx, &btapb.CreateTableRequest{Parent: parentI, TableId: "t", Table: &btapb.Table{ColumnFamilies: map[string]*btapb.ColumnFamily{"f": {}}}}))
		}
	case "DeleteTable":
		return func() { mar(S.DeleteTable(ctx, &btapb.DeleteTableRequest{Name: tblT})) }
	case "GetTable":
		return func() { mar(S.GetTable(ctx, &btapb.GetTableRequest{Name: tblT})) }
	case "ListTables":
		return func() { mar(S.ListTables(ctx, &btapb.ListTablesRequest{Parent: parentI})) }
	case "ModifyCreate":
		return func() {
			mar(S.ModifyColumnFamilies(ctx, &btapb.ModifyColumnFamiliesRequest{Name: tblT, Modifications: []*btapb.ModifyColumnFamiliesRequest_Modification{
				{Id: "h", Mod: &btapb.ModifyColumnFamiliesRequest_Modification_Create{Create: &btapb.ColumnFamily{GcRule: (&bt.GC{Kind: "maxver", N: 2}).Proto()}}}}}))
		}
	case "ModifyUpdate":
		return func() {
			mar(S.ModifyColumnFamilies(ctx, &btapb.ModifyColumnFamiliesRequest{Name: tblT, Modifications: []*btapb.ModifyColumnFamiliesRequest_Modification{
				{Id: "f", Mod: &btapb.ModifyColumnFamiliesRequest_Modification_Update{Update: &btapb.ColumnFamily{GcRule: (&bt.GC{Kind: "maxver", N: 1}).Proto()}}}}}))
		}
	case "ModifyDrop":
		return func() {
			mar(S.ModifyColumnFamilies(ctx, &btapb.ModifyColumnFamiliesRequest{Name: tblT, Modifications: []*btapb.ModifyColumnFamiliesRequest_Modification{
				{Id: "g", Mod: &btapb.ModifyColumnFamiliesRequest_Modification_Drop{Drop: true}}}}))
		}
	case "DropPrefix":
		return func() {
			mar(S.DropRowRange(ctx, &btapb.DropRowRangeRequest{Name: tblT, Target: &btapb.DropRowRangeRequest_RowKeyPrefix{RowKeyPrefix: []byte("a")}}))
		}
	case "DropAll":
		return func() {
			mar(S.DropRowRange(ctx, &btapb.DropRowRangeRequest{Name: tblT, Target: &btapb.DropRowRangeRequest_DeleteAllDataFromTable{DeleteAllDataFromTable: true}}))
		}
	case "GenToken":
		return func() { mar(S.GenerateConsistencyToken(ctx, &btapb.GenerateConsistencyTokenRequest{Name: tblT})) }
	case "CheckConsistency":
		return func() {
			mar(S.CheckConsistency(ctx, &btapb.CheckConsistencyRequest{Name: tblT, ConsistencyToken: "TokenFor-" + tblT}))
		}
	case "MutateRow":
		return func() {
			mar(S.MutateRow(ctx, &btpb.MutateRowRequest{TableName: tblT, RowKey: []byte("a"), Mutations: []*btpb.Mutation{set("f", "m", 1000, "M"), set("g", "m", 1000, "M")}}))
		}
	case "MutateRows":
		return func() {
			_ = S.MutateRows(&btpb.MutateRowsRequest{TableName: tblT, Entries: []*btpb.MutateRowsRequest_Entry{
				{RowKey: []byte("a"), Mutations: []*btpb.Mutation{set("f", "r", 1000, "R")}}, {RowKey: []byte("zz"), Mutations: []*btpb.Mutation{set("g", "r", 1000, "R")}}}}, &mrStream{})
		}
	case "CheckAndMutate":
		return func() {
			mar(S.CheckAndMutateRow(ctx, &btpb.CheckAndMutateRowRequest{TableName: tblT, RowKey: []byte("a"),
				PredicateFilter: &btpb.RowFilter{Filter: &btpb.RowFilter_FamilyNameRegexFilter{FamilyNameRegexFilter: "g"}},
				TrueMutations:   []*btpb.Mutation{set("f", "cam", 1000, "t")}, FalseMutations: []*btpb.Mutation{set("f", "cam", 1000, "f")}}))
		}
	case "RMW":
		return func() {
			mar(S.ReadModifyWriteRow(ctx, &btpb.ReadModifyWriteRowRequest{TableName: tblT, RowKey: []byte("a"), Rules: []*btpb.ReadModifyWriteRule{
				{FamilyName: "f", ColumnQualifier: []byte("n"), Rule: &btpb.ReadModifyWriteRule_IncrementAmount{IncrementAmount: 1}}}}))
		}
	case "ReadSmall":
		return func() { _ = S.ReadRows(&btpb.ReadRowsRequest{TableName: tblT, RowsLimit: 2}, &rrStream{}) }
	case "ReadBig":
		return func() { _ = S.ReadRows(&btpb.ReadRowsRequest{TableName: tblT}, &rrStream{}) }
	case "SampleRowKeys":
		return func() { _ = S.SampleRowKeys(&btpb.SampleRowKeysRequest{TableName: tblT}, &skStream{}) }
	case "GC":
		return func() { d.GCPass(0) }
	}
	panic("c20BtThread " + name)
}

type c20Fx struct{ rows []*btpb.Row }

var c20BtFixture *c20Fx
var c20BtFixtureWide *c20Fx

// c20BtRowsWide: 300 rows of 12 cells: the btree engine holds them in a tree of several levels, and a full
// scan streams four messages (giving up the table lock after rows 86, 172, 258) while deep inside the tree.
func c20BtRowsWide() []*btpb.Row {
	if c20BtFixtureWide != nil {
		return c20BtFixtureWide.rows
	}
	d := bt.NewDriver("btree", "")
	defer d.Close()
	ops := []bt.Op{{Kind: "CreateTable", Parent: parentI, TableID: "t", Fams: map[string]*bt.GC{"f": nil, "g": {Kind: "maxver", N: 1}}}}
	for i := 0; i < 300; i++ {
		var muts []bt.Mut
		for j := 0; j < 10; j++ {
			muts = append(muts, mset("f", fmt.Sprintf("q%02d", j), 1000, "v"))
		}
		muts = append(muts, mset("g", "x", 2000, "new"), mset("g", "x", 1000, "old"), mset("g", "y", 1000, "w"))
		k := fmt.Sprintf("a%03d", i)
		if i >= 150 {
			k = fmt.Sprintf("b%03d", i)
		}
		ops = append(ops, bt.Op{Kind: "MutateRow", Table: tblT, Key: []byte(k), Muts: muts})
	}
	for i := range ops {
		if r := d.Apply(&ops[i]); r.Code != "OK" {
			panic("c20 wide fixture: " + r.Code + r.Msg + r.Panic)
		}
	}
	f := &c20Fx{}
	for _, t := range d.S.VerifDump() {
		for _, r := range t.Rows {
			f.rows = append(f.rows, proto.Clone(r).(*btpb.Row))
		}
	}
	c20BtFixtureWide = f
	return f.rows
}

var c20BtFixtureHuge *c20Fx

// c20BtRowsHuge: 5000 rows of one 2 KiB cell (about 10 MB): more than leveldb's 4 MiB write buffer, so part of the
// table lives in table files on (memory or disk) storage rather than in the memtable; a full scan streams three messages.
func c20BtRowsHuge() []*btpb.Row {
	if c20BtFixtureHuge != nil {
		return c20BtFixtureHuge.rows
	}
	val := make([]byte, 2048)
	for i := range val {
		val[i] = byte('a' + i%26)
	}
	f := &c20Fx{}
	for i := 0; i < 5000; i++ {
		f.rows = append(f.rows, &btpb.Row{Key: []byte(fmt.Sprintf("h%05d", i)), Families: []*btpb.Family{{Name: "f", Columns: []*btpb.Column{{Qualifier: []byte("q"),
			Cells: []*btpb.Cell{{TimestampMicros: 1000, Value: val}}}}}}})
	}
	c20BtFixtureHuge = f
	return f.rows
}

func c20BtRows() []*btpb.Row {
	if c20BtFixture != nil {
		return c20BtFixture.rows
	}
	d := bt.NewDriver("btree", "")
	defer d.Close()
	ops := []bt.Op{{Kind: "CreateTable", Parent: parentI, TableID: "t", Fams: map[string]*bt.GC{"f": nil, "g": {Kind: "maxver", N: 1}}}}
	for _, k := range []string{"a", "ab", "b", "c"} {
		n := 3
		if k == "b" {
			n = 1100 // the full read streams two messages and gives up the lock in between
		}
		var muts []bt.Mut
		for i := 0; i < n; i++ {
			muts = append(muts, mset("f", fmt.Sprintf("q%04d", i), 1000, "v"))
		}
		muts = append(muts, mset("g", "x", 2000, "new"), mset("g", "x", 1000, "old"))
		ops = append(ops, bt.Op{Kind: "MutateRow", Table: tblT, Key: []byte(k), Muts: muts})
	}
	for i := range ops {
		if r := d.Apply(&ops[i]); r.Code != "OK" {
			panic("c20 fixture: " + r.Code + r.Msg + r.Panic)
		}
	}
	f := &c20Fx{}
	for _, t := range d.S.VerifDump() {
		for _, r := range t.Rows {
			f.rows = append(f.rows, proto.Clone(r).(*btpb.Row))
		}
	}
	c20BtFixture = f
	return f.rows
}

var c20Seq int

func c20Build(c *fw.Ctx, p c20Param) *schedInst {
	vtime.SetVirtual(1_700_000_000_000_000_000, 1)
	inst := &schedInst{}
	if p.Side == "bt" {
		var raw bttest.Rows
		d := bt.NewDriverOn(p.Store, "", bt.PointStorage{Storage: bt.NewStorage(p.Store, ""), Quiet: p.Fix != "", OnCreate: func(n string, r bttest.Rows) {
			if n == tblT {
				raw = r
			}
		}})
		d.Clock = 10_000_000
		if _, err := d.S.CreateTable(context.Background(), &btapb.CreateTableRequest{Parent: parentI, TableId: "t", Table: &btapb.Table{ColumnFamilies: map[string]*btapb.ColumnFamily{
			"f": {}, "g": {GcRule: (&bt.GC{Kind: "maxver", N: 1}).Proto()}}}}); err != nil {
			panic(err)
		}
		fixRows := c20BtRows()
		if p.Fix == "wide" {
			fixRows = c20BtRowsWide()
		}
		if p.Fix == "huge" {
			fixRows = c20BtRowsHuge()
		}
		for _, r := range fixRows {
			raw.ReplaceOrInsert(proto.Clone(r).(*btpb.Row))
		}
		vtime.Advance(time.Hour)
		_ = bigtable.Now
		for _, n := range p.Threads {
			inst.Threads = append(inst.Threads, c20BtThread(d.S, d, n))
		}
		inst.Verdict = func(x *sched.Exec) (string, string, string) {
			defer d.Close()
			// the service must still answer a valid request
			st := &rrStream{}
			if err := d.S.ReadRows(&btpb.ReadRowsRequest{TableName: tblT, RowsLimit: 1}, st); err != nil && !strings.Contains(err.Error(), "not found") {
				return "after", "after the request mix a valid read fails: " + err.Error(), "after"
			}
			return "", "", "ok"
		}
		return inst
	}
	// gcs
	dir := ""
	if p.Store == "file" {
		c20Seq++
		dir = filepath.Join(c.Scratch, fmt.Sprintf("c20-%d", c20Seq))
		_ = os.MkdirAll(dir, 0o777)
		vos.Hook = func(phase, op, path string) {
			if phase == "pre" {
				c20Yield("fs." + op)
			}
		}
	} else {
		vos.Hook = nil
	}
	d := gcs.NewDriver(p.Store, dir, func(s gcsemu.Store) gcsemu.Store { return gcs.PointStore{Store: s} })
	for _, r := range []gcs.HTTPReq{gcs.ReqCreateBucket("b"),
		gcs.ReqUploadMultipart("b", "x", []byte("orig"), gcs.ObjMeta{ContentType: "text/orig", Metadata: map[string]string{"o": "1"}}, nil, false),
		gcs.ReqUploadMedia("b", "y", []byte("yy"), gcs.ObjMeta{ContentType: "text/y"}, nil, false)} {
		if resp := d.Do(r); resp.Status != 200 {
			panic("c20 gcs setup")
		}
	}
	sessURI := ""
	for _, n := range p.Threads {
		if strings.HasPrefix(n, "Sess") && sessURI == "" {
			r := d.Do(gcs.ReqResumableStart("b", "s", gcs.ObjMeta{ContentType: "text/sess"}, nil))
			u, err := url.Parse(r.Header.Get("Location"))
			if r.Status != 200 || err != nil || u.Query().Get("upload_id") == "" {
				panic("c20 gcs setup: no session")
			}
			sessURI = u.RequestURI()
		}
	}
	panics := make([]string, len(p.Threads))
	lastStatus := make([]int, len(p.Threads))
	listed := make([][]string, len(p.Threads)) // object names a "List" thread was shown
	cctx, cancel := context.WithCancel(context.Background())
	for i, n := range p.Threads {
		i, n := i, n
		if n == "CancelCtx" {
			// the client of every "...@ctx" request goes away at some point
			inst.Threads = append(inst.Threads, func() {
				c20Yield("cancel")
				cancel()
			})
			continue
		}
		ctx := context.Background()
		if strings.HasSuffix(n, "@ctx") {
			ctx = cctx
			n = strings.TrimSuffix(n, "@ctx")
		}
		inst.Threads = append(inst.Threads, func() {
			for _, r := range c20GcsReqs(n, sessURI) {
				resp := d.DoCtx(ctx, r)
				if resp.Panic != "" {
					panics[i] = r.String() + ": " + resp.Panic
				}
				lastStatus[i] = resp.Status
				if n == "List" && resp.Status == 200 {
					if pg, err := gcs.ParseList(resp.Body); err == nil {
						for _, it := range pg.Items {
							listed[i] = append(listed[i], it.Name)
						}
					} else {
						panics[i] = "unparsable listing: " + err.Error()
					}
				}
			}
		})
	}
	_ = cancel
	inst.Verdict = func(x *sched.Exec) (string, string, string) {
		vos.Hook = nil
		defer func() {
			if dir != "" {
				_ = os.RemoveAll(dir)
			}
		}()
		for _, pn := range panics {
			if pn != "" {
				return "panic", "handler panicked: " + pn, "panic"
			}
		}
		if r := d.Do(gcs.ReqGetMeta("b", "y")); r.Panic != "" || (r.Status != 200 && r.Status != 404) {
			return "after", fmt.Sprintf("after the request mix a valid metadata GET answers %d %s", r.Status, r.Panic), "after"
		}
		// a listing shows only objects that exist or existed during the mix: never a name nobody ever wrote (a scratch
		// file of a store, an object of another bucket)
		for i := range listed {
			for _, name := range listed[i] {
				if name != "x" && name != "y" && name != "z" {
					return "ghost", fmt.Sprintf("a listing of bucket b, concurrent with %v, shows an object %q that no request ever created", p.Threads, name), "ghost"
				}
			}
		}
		// ... and never misses an object that existed before, throughout and after the mix (y, unless the mix contains
		// the batch that deletes y or the deletion of the bucket)
		removesY := false
		for _, n := range p.Threads {
			if n == "Batch" || n == "DeleteBucket" {
				removesY = true
			}
		}
		for i, n := range p.Threads {
			if strings.TrimSuffix(n, "@ctx") == "List" && lastStatus[i] == 200 && !removesY && !slices.Contains(listed[i], "y") {
				return "unlisted", fmt.Sprintf("a listing of bucket b, concurrent with %v, answered 200 with %v: object y, which exists throughout, is missing", p.Threads, listed[i]), "unlisted"
			}
		}
		// previously stored data intact: an upload into the fresh bucket that was acknowledged (and that nothing in
		// the mix deletes) is served afterwards
		for i, n := range p.Threads {
			if strings.HasPrefix(n, "UploadNB") && lastStatus[i] == 200 {
				obj := "o" + strings.TrimPrefix(n, "UploadNB")
				if r := d.Do(gcs.ReqGetMedia("json", "nb", obj)); r.Status != 200 || string(r.Body) != "nb-"+obj {
					return "lost", fmt.Sprintf("the upload of nb/%s was acknowledged with 200, afterwards its download answers %d %.40q", obj, r.Status, r.Body), "lost"
				}
			}
		}
		// a session whose requests were in flight together (retries, status queries) has received exactly the bytes its
		// client sent - it says so when asked, and completes with them
		if sessURI != "" {
			q := d.Do(gcs.ReqResumableChunk(sessURI, nil, "bytes */*", false, false))
			switch {
			case q.Panic != "":
				return "session", "status query after the mix: " + q.Panic, "session"
			case q.Status >= 400: // completed by the mix: the session is gone (how that is said is the input catalogue's subject)
			case q.Status == 308:
				switch rg := q.Header.Get("Range"); rg {
				case "bytes=0-2":
				case "":
					if r1 := d.Do(gcs.ReqResumableChunk(sessURI, []byte("abc"), "bytes 0-2/*", false, false)); r1.Status != 308 {
						return "session", fmt.Sprintf("after the mix %v the first chunk of the (empty) session is answered %d %.100q", p.Threads, r1.Status, r1.Body), "session"
					}
				default:
					return "sessrange", fmt.Sprintf("after the mix %v the session reports %q as received; its client only ever sent the three bytes 0-2 (twice at most, as a retry)", p.Threads, rg), "sessrange"
				}
				if r2 := d.Do(gcs.ReqResumableChunk(sessURI, []byte("def"), "bytes 3-5/6", false, false)); r2.Status != 200 {
					return "session", fmt.Sprintf("after the mix %v the session does not complete: final chunk %d %.100q", p.Threads, r2.Status, r2.Body), "session"
				}
			default:
				return "session", fmt.Sprintf("after the mix %v the status query of the session is answered %d %.100q", p.Threads, q.Status, q.Body), "session"
			}
			if r := d.Do(gcs.ReqGetMedia("json", "b", "s")); r.Status != 200 || string(r.Body) != "abcdef" {
				return "sessbytes", fmt.Sprintf("after the mix %v and the completion of the session the object holds %d %q, sent \"abcdef\"", p.Threads, r.Status, r.Body), "sessbytes"
			}
		}
		// a valid upload with a gzip-compressed body is accepted whatever else is in flight, and served byte for byte
		for i, n := range p.Threads {
			if strings.HasPrefix(n, "GzUp") {
				obj := "g" + strings.TrimPrefix(n, "GzUp")
				if lastStatus[i] != 200 {
					return "gzrejected", fmt.Sprintf("a valid gzip-compressed upload of b/%s, concurrent with %v, was answered %d", obj, p.Threads, lastStatus[i]), "gzrejected"
				}
				if r := d.Do(gcs.ReqGetMedia("json", "b", obj)); r.Status != 200 || string(r.Body) != string(c20GzPayload(obj)) {
					return "gzbytes", fmt.Sprintf("the gzip-compressed upload of b/%s was acknowledged, afterwards its download answers %d with %d bytes %.40q (sent %d bytes)", obj, r.Status, len(r.Body), r.Body, len(c20GzPayload(obj))), "gzbytes"
				}
			}
			if n == "GzBad" && lastStatus[i] != 400 {
				return "gzbad", fmt.Sprintf("an upload without object name was answered %d", lastStatus[i]), "gzbad"
			}
			if n == "GzPatch" && lastStatus[i] != 200 {
				return "gzpatch", fmt.Sprintf("a valid patch with a gzip-compressed body, concurrent with %v, was answered %d", p.Threads, lastStatus[i]), "gzpatch"
			}
		}
		return "", "", "ok"
	}
	return inst
}

var c20GcsOps = []string{"CreateBucket", "DeleteBucket", "UploadMedia", "UploadMultipart", "UploadResumable", "Patch", "Delete", "GetMedia", "GetMeta", "List", "Compose", "Copy", "Batch"}

// c20GzPayload is compressible (the deflate stream uses Huffman blocks and back references) and long enough to
// arrive in two pieces.
func c20GzPayload(tag string) []byte {
	return []byte(strings.Repeat("gzip payload "+tag+" 0123456789 abcdefghij ", 40))
}

func c20GcsReqs(name, sess string) []gcs.HTTPReq {
	switch name {
	// requests of ONE resumable session (b/s, "abcdef" in two chunks), as a client sends them when it retries a chunk
	// whose answer is late while the first attempt is still being served, or asks for the status meanwhile
	case "SessA", "SessB":
		r := gcs.ReqResumableChunk(sess, []byte("abc"), "bytes 0-2/*", false, false)
		r.SlowBody = true // the body of a chunk arrives while other requests of the session are served
		return []gcs.HTTPReq{r}
	case "SessQ":
		return []gcs.HTTPReq{gcs.ReqResumableChunk(sess, nil, "bytes */*", false, false)}
	case "SessF":
		r := gcs.ReqResumableChunk(sess, []byte("def"), "bytes 3-5/6", false, false)
		r.SlowBody = true
		return []gcs.HTTPReq{r}
	case "GzUp1", "GzUp2":
		// a valid upload whose request body is gzip-compressed and arrives slowly
		obj := "g" + strings.TrimPrefix(name, "GzUp")
		r := gcs.ReqUploadMedia("b", obj, c20GzPayload(obj), gcs.ObjMeta{ContentType: "text/gz"}, nil, true)
		r.SlowBody = true
		return []gcs.HTTPReq{r}
	case "GzBad":
		// a gzip-compressed upload that is rejected before its body is read (no object name)
		r := gcs.ReqUploadMedia("b", "", c20GzPayload("bad"), gcs.ObjMeta{ContentType: "text/gz"}, nil, true)
		r.SlowBody = true
		return []gcs.HTTPReq{r}
	case "GzPatch":
		// a gzip-compressed JSON body (the JSON decoder stops at the end of the value, before the gzip trailer)
		r := gcs.ReqPatch("b", "y", []byte(`{"metadata":{"gz":"`+strings.Repeat("v", 200)+`"}}`), nil)
		r.Body = gcs.Gz(r.Body)
		if r.Header == nil {
			r.Header = map[string]string{}
		}
		r.Header["Content-Encoding"] = "gzip"
		r.SlowBody = true
		return []gcs.HTTPReq{r}
	case "CreateBucket":
		return []gcs.HTTPReq{gcs.ReqCreateBucket("b")}
	case "DeleteBucket":
		return []gcs.HTTPReq{gcs.ReqDeleteBucket("b")}
	case "CreateNB": // a bucket that does not exist before the mix
		return []gcs.HTTPReq{gcs.ReqCreateBucket("nb")}
	case "UploadNB1":
		return []gcs.HTTPReq{gcs.ReqUploadMedia("nb", "o1", []byte("nb-o1"), gcs.ObjMeta{ContentType: "text/m"}, nil, false)}
	case "UploadNB2":
		return []gcs.HTTPReq{gcs.ReqUploadMultipart("nb", "o2", []byte("nb-o2"), gcs.ObjMeta{ContentType: "text/m"}, nil, false)}
	case "UploadMedia":
		return []gcs.HTTPReq{gcs.ReqUploadMedia("b", "x", []byte("media"), gcs.ObjMeta{ContentType: "text/m"}, nil, false)}
	case "UploadMultipart":
		return []gcs.HTTPReq{gcs.ReqUploadMultipart("b", "x", []byte("multi"), gcs.ObjMeta{ContentType: "text/mp", Metadata: map[string]string{"k": "v"}}, nil, false)}
	case "UploadResumable":
		// the session id is predictable (a counter): initiation then the single chunk
		return []gcs.HTTPReq{gcs.ReqResumableStart("b", "x", gcs.ObjMeta{ContentType: "text/r"}, nil)}
	case "Patch":
		return []gcs.HTTPReq{gcs.ReqPatch("b", "x", []byte(`{"metadata":{"p":"1"}}`), nil)}
	case "Delete":
		return []gcs.HTTPReq{gcs.ReqDelete("b", "x", nil)}
	case "GetMedia":
		return []gcs.HTTPReq{gcs.ReqGetMedia("json", "b", "x")}
	case "GetMeta":
		return []gcs.HTTPReq{gcs.ReqGetMeta("b", "x")}
	case "List":
		return []gcs.HTTPReq{gcs.ReqList("b", nil)}
	case "Compose":
		return []gcs.HTTPReq{gcs.ReqCompose("b", "x", []gcs.ComposeSrc{{Name: "y"}, {Name: "x"}}, &gcs.ObjMeta{ContentType: "text/c"}, nil)}
	case "Copy":
		return []gcs.HTTPReq{gcs.ReqCopy("b", "x", "b", "z")}
	case "Batch":
		return []gcs.HTTPReq{c20Batch([]gcs.HTTPReq{gcs.ReqGetMeta("b", "x"), gcs.ReqDelete("b", "y", nil)})}
	}
	panic("c20GcsReqs " + name)
}

// c20Batch wraps requests into one multipart/mixed batch request.
func c20Batch(reqs []gcs.HTTPReq) gcs.HTTPReq {
	const bnd = "batch-verif-7d9a"
	var sb strings.Builder
	for i, r := range reqs {
		fmt.Fprintf(&sb, "--%s\r\nContent-Type: application/http\r\nContent-ID: <item-%d>\r\n\r\n", bnd, i+1)
		fmt.Fprintf(&sb, "%s %s HTTP/1.1\r\n", r.Method, r.URL)
		var hs []string
		for k, v := range r.Header {
			hs = append(hs, k+": "+v)
		}
		sort.Strings(hs)
		for _, h := range hs {
			sb.WriteString(h + "\r\n")
		}
		if len(r.Body) > 0 {
			fmt.Fprintf(&sb, "Content-Length: %d\r\n", len(r.Body))
		}
		sb.WriteString("\r\n")
		sb.Write(r.Body)
		sb.WriteString("\r\n")
	}
	fmt.Fprintf(&sb, "--%s--\r\n", bnd)
	return gcs.HTTPReq{Method: "POST", URL: "/batch/storage/v1", Header: map[string]string{"Content-Type": "multipart/mixed; boundary=" + bnd}, Body: []byte(sb.String())}
}

func c20Scenario(c *fw.Ctx, p c20Param) *schedScenario {
	raw, _ := json.Marshal(p)
	return &schedScenario{Name: p.name(), Param: raw, Build: func() *schedInst { return c20Build(c, p) }}
}

var raceStackRe = regexp.MustCompile(`(?m)^\s+github\.com/fullstorydev/emulators/(\S+?)\(\)\s*$`)

// raceSignature reduces a race report to the emulator functions on the two access stacks
// (order-insensitive); "" if no emulator code is involved (then the race is in the harness).
func raceSignature(report string) string {
	if i := strings.Index(report, "Goroutine "); i > 0 {
		report = report[:i] // the creation stacks are the harness's
	}
	set := map[string]bool{}
	for _, m := range raceStackRe.FindAllStringSubmatch(report, -1) {
		f := m[1]
		f = f[strings.LastIndex(f, "/")+1:]
		set[f] = true
	}
	var fs []string
	for f := range set {
		fs = append(fs, f)
	}
	sort.Strings(fs)
	if len(fs) > 6 {
		fs = fs[:6]
	}
	return strings.Join(fs, "+")
}

// exploreRace explores the scenario and, in race builds, turns every new race-detector report
// into a violation attributed to the schedule during which it appeared.
// c20Abandoned: some execution of this worker process ended with threads that can never run again.
var c20Abandoned bool

func exploreRace(c *fw.Ctx, sc *schedScenario, bound int, seenLen *int) int64 {
	e := &sched.Explorer{Bound: bound, Deadline: c.Deadline}
	first := true
	e.Explore(func(prefix []int) *sched.Exec {
		x, class, detail, outcome := runSchedOnce(sc, prefix)
		c.Eval(1)
		c.Trace(1)
		c.Trans(int64(x.Steps))
		choices := x.Choices()
		c.State(fw.Hash(sc.Name, fmt.Sprint(choices)))
		if outcome != "" {
			c.Outcome(sc.Name + ":" + outcome)
		}
		if first {
			first = false
			c.Sample(map[string]interface{}{"scenario": sc.Name, "schedule_choices": choices, "scheduling_points": x.Steps, "race_detector": sched.RaceMode})
		}
		if class == "internal-divergence" {
			c.InternalError("C20/" + sc.Name + ": " + detail)
			e.Stop = true
			return x
		}
		cs := schedCase{Scenario: sc.Name, Param: sc.Param, Choices: choices}
		if x != nil && x.Deadlock {
			c20Abandoned = true
		}
		if class != "" {
			c.Violate(fmt.Sprintf("C20:%s:%s", sc.Name, class), detail+fmt.Sprintf("\n  scenario %s, schedule choices %v", sc.Name, choices), cs, func() string {
				_, cl2, _, _ := runSchedOnce(sc, choices)
				if cl2 == "" {
					return ""
				}
				return fmt.Sprintf("C20:%s:%s", sc.Name, cl2)
			})
		}
		if sched.RaceMode {
			log := c.RaceLog()
			if len(log) > *seenLen {
				fresh := log[*seenLen:]
				*seenLen = len(log)
				for _, rep := range strings.Split(fresh, "==================") {
					if !strings.Contains(rep, "DATA RACE") {
						continue
					}
					sig := raceSignature(rep)
					if sig == "" {
						if c20Abandoned {
							// an execution of this worker ended in "no enabled thread": its threads are parked for good and
							// were never joined, so nothing orders what they did to harness state before what the threads of
							// later executions do to it. Such a report says nothing about the emulator or the harness.
							c.Note("harness_race_after_abandoned_threads", 1)
							continue
						}
						c.InternalError("race report that involves no emulator code (harness race):\n" + rep)
						continue
					}
					if len(rep) > 3500 {
						rep = rep[:3500] + "…"
					}
					// the detector prints each distinct race once per process: no 5x reproduction possible
					c.Violate("C20:race:"+sig, "the race detector reports unsynchronised accesses (ordered only by the explorer's serialisation, not by the program's own locks):\n"+rep+
						fmt.Sprintf("\n  scenario %s, schedule choices %v", sc.Name, choices), cs, nil)
					c.Outcome("race:" + sig)
				}
			}
		}
		return x
	}, func(*sched.Exec) {})
	if e.Capped {
		c.Incomplete(fmt.Sprintf("scenario %s: exploration capped after %d executions", sc.Name, e.Execs))
	}
	return e.Execs
}

func runC20Race(c *fw.Ctx, item *int64) {
	var scen []c20Param
	btEngines := []string{"mem"}
	if c.Thorough() {
		btEngines = []string{"mem", "btree"}
	}
	for _, eng := range btEngines {
		for i := range c20BtOps {
			for j := i; j < len(c20BtOps); j++ {
				if c20BtOps[i] == "GC" && c20BtOps[j] == "GC" {
					continue // there is one background loop
				}
				scen = append(scen, c20Param{Side: "bt", Store: eng, Threads: []string{c20BtOps[i], c20BtOps[j]}})
			}
		}
		_ = eng
		if c.Thorough() {
			for _, tr := range [][]string{{"GetTable", "ModifyCreate", "ModifyDrop"}, {"CreateTable", "DeleteTable", "ListTables"}, {"ReadBig", "DropAll", "MutateRow"}, {"GC", "MutateRow", "ReadBig"}, {"GenToken", "CreateTable", "DeleteTable"}} {
				scen = append(scen, c20Param{Side: "bt", Store: eng, Threads: tr})
			}
		}
	}
	// read-only requests against each other on the engine that does NOT happen to order them through locks of its own
	// (leveldb takes internal mutexes when an iterator is created and released, which hides unsynchronised state the
	// service shares between readers - a sampling generator, a cache)
	if !c.Thorough() {
		ro := []string{"ReadSmall", "ReadBig", "SampleRowKeys", "GetTable", "ListTables"}
		for i := range ro {
			for j := i; j < len(ro); j++ {
				scen = append(scen, c20Param{Side: "bt", Store: "btree", Threads: []string{ro[i], ro[j]}})
			}
		}
	}
	// a long scan (four messages, i.e. three lock gaps, deep inside a multi-level tree) against everything that
	// restructures or replaces the table's storage; every engine, the btree engine included (its scans need not
	// be consistent under writes, but they must not crash the server)
	for _, eng := range []string{"btree", "mem"} {
		ops := []string{"DropAll", "DropPrefix", "DeleteTable", "ModifyDrop", "GC", "MutateRows"}
		if eng == "mem" && !c.Thorough() {
			ops = []string{"DropAll", "DropPrefix"}
		}
		if c.Thorough() {
			ops = append(ops, "MutateRow", "RMW", "ReadBig")
		}
		for _, o := range ops {
			scen = append(scen, c20Param{Side: "bt", Store: eng, Fix: "wide", Threads: []string{"ReadBig", o}})
		}
	}
	// the same on a table that no longer fits leveldb's memtable (its older rows are in table files): a scan that
	// has given up the table lock must survive the table being cleared / dropped by prefix under it
	// (explored on the plain build, see runC20Lin: filling 10 MB per execution is too slow under the race detector)
	for _, store := range []string{"mem", "file"} {
		for i := range c20GcsOps {
			for j := i; j < len(c20GcsOps); j++ {
				scen = append(scen, c20Param{Side: "gcs", Store: store, Threads: []string{c20GcsOps[i], c20GcsOps[j]}})
			}
		}
		// first writes into a bucket that does not exist yet, racing each other and the bucket's creation
		for _, tr := range [][]string{{"UploadNB1", "UploadNB2"}, {"CreateNB", "UploadNB1"}, {"CreateNB", "UploadNB1", "UploadNB2"}, {"CreateNB", "CreateNB"}} {
			scen = append(scen, c20Param{Side: "gcs", Store: store, Threads: tr})
		}
		// requests with gzip-compressed bodies that arrive slowly (every read of a body is a scheduling point), one
		// of them rejected before its body is consumed: the transport wrappers (decompress, drain) of two requests
		// interleave
		for _, tr := range [][]string{{"GzBad", "GzUp1"}, {"GzUp1", "GzUp2"}, {"GzPatch", "GzUp1"}, {"GzBad", "GzPatch"}, {"GzBad", "GzBad"}} {
			scen = append(scen, c20Param{Side: "gcs", Store: store, Threads: tr})
		}
		// two requests of the same resumable session in flight at once
		for _, tr := range [][]string{{"SessA", "SessB"}, {"SessA", "SessQ"}, {"SessA", "SessF"}, {"SessF", "SessQ"}} {
			scen = append(scen, c20Param{Side: "gcs", Store: store, Threads: tr})
		}
		// a client that goes away while its request waits for (or holds) object locks
		for _, tr := range [][]string{{"Patch", "Compose@ctx", "CancelCtx"}, {"UploadMedia", "Copy@ctx", "CancelCtx"}, {"Compose", "Patch@ctx", "CancelCtx"}, {"Delete", "GetMedia@ctx", "CancelCtx"}} {
			scen = append(scen, c20Param{Side: "gcs", Store: store, Threads: tr})
		}
		if c.Thorough() {
			for _, tr := range [][]string{{"Patch", "GetMeta", "UploadMultipart"}, {"DeleteBucket", "List", "UploadMedia"}, {"Copy", "Compose", "Delete"}, {"Batch", "Patch", "Delete"}} {
				scen = append(scen, c20Param{Side: "gcs", Store: store, Threads: tr})
			}
		}
	}
	seen := 0
	for _, p := range scen {
		*item++
		if !c.Mine(*item) {
			continue
		}
		if c.Expired() {
			c.Incomplete("time budget reached before all concurrent scenarios were explored")
			break
		}
		sc := c20Scenario(c, p)
		bound := 1
		if c.Thorough() || (len(p.Threads) == 3 && p.Threads[2] == "CancelCtx" && p.Store != "file") {
			bound = 2 // (quick, file store: 1 - every file-system call is a point there, the scenario alone took the budget)
		}
		n := exploreRace(c, sc, bound, &seen)
		c.Note("race_mode_execs", n)
	}
	c.Bound("concurrent_scenarios", len(scen))
	c.Bound("race_detector_active", sched.RaceMode)
}
