package checks

import (
	"encoding/json"
	"fmt"
	"github.com/fullstorydev/emulators/bigtable/bttest"
	"os"
	"path/filepath"
	"strings"
	"time"

	"github.com/anishathalye/porcupine"

	"verif/bt"
	"verif/fw"
	"verif/sched"
)

// C06 — every single-row write is all-or-nothing and linearizable per row.

// btHistory records call/return events of requests issued by controlled threads.
type btHistory struct {
	clock int64
	ops   []porcupine.Operation
}

type btIn struct {
	Op bt.Op
}

func (h *btHistory) do(d *bt.Driver, client int, o bt.Op) bt.Resp {
	h.clock++
	call := h.clock
	r := d.Apply(&o)
	h.clock++
	ret := h.clock
	h.record(client, o, r, call, ret)
	return r
}

// record splits a MutateRows call into one operation per entry sharing the call/return
// interval (the property is per entry).
func (h *btHistory) record(client int, o bt.Op, r bt.Resp, call, ret int64) {
	if o.Kind == "MutateRows" && r.Code == "OK" && len(r.Entries) == len(o.Entries) {
		for i, e := range o.Entries {
			eo := bt.Op{Kind: "MutateRows", Table: o.Table, Entries: []bt.Entry{e}}
			er := bt.Resp{Code: "OK", Entries: []string{r.Entries[i]}}
			h.ops = append(h.ops, porcupine.Operation{ClientId: client, Input: btIn{eo}, Output: er, Call: call, Return: ret})
		}
		return
	}
	h.ops = append(h.ops, porcupine.Operation{ClientId: client, Input: btIn{o}, Output: r, Call: call, Return: ret})
}

// btPorcupineModel: the sequential reference model as a porcupine model.
func btPorcupineModel(init *bt.Model) porcupine.Model {
	return porcupine.Model{
		Init: func() interface{} { return init },
		Step: func(state, input, output interface{}) (bool, interface{}) {
			m := state.(*bt.Model).Clone()
			in := input.(btIn)
			out := output.(bt.Resp)
			want := m.Apply(&in.Op, nil, 0)
			if want.Ambiguous != "" {
				return true, m
			}
			return bt.Compare(out, want) == "", m
		},
		Equal: func(a, b interface{}) bool {
			return a.(*bt.Model).StateString() == b.(*bt.Model).StateString()
		},
		DescribeOperation: func(input, output interface{}) string {
			o := output.(bt.Resp)
			s := input.(btIn).Op.String() + " -> " + o.Code
			if o.Matched != nil {
				s += fmt.Sprintf(" matched=%v", *o.Matched)
			}
			if len(o.Rows) > 0 {
				s += " " + bt.RowsString(o.Rows)
			}
			if len(o.Entries) > 0 {
				s += " " + strings.Join(o.Entries, ",")
			}
			return s
		},
	}
}

func describeHistory(m porcupine.Model, ops []porcupine.Operation) string {
	var sb strings.Builder
	for _, o := range ops {
		fmt.Fprintf(&sb, "\n     client %d [%d,%d] %s", o.ClientId, o.Call, o.Return, m.DescribeOperation(o.Input, o.Output))
	}
	return sb.String()
}

type c06Param struct {
	Engine  string    `json:"engine"`
	Threads [][]bt.Op `json:"threads"`
	Pre     []bt.Op   `json:"pre"`
	Iter    bool      `json:"iterpoints,omitempty"`
	// Close: the observations that close the history (default: one full read of the table)
	Close []bt.Op `json:"close,omitempty"`
	// Restart (engine "disk"): after the history has been judged, the emulator is stopped and started again on the
	// directory (public constructor); the closing observations must be answered as before the restart
	Restart bool `json:"restart,omitempty"`
}

func c06OpName(o bt.Op) string {
	switch o.Kind {
	case "RMW":
		if o.Rules[0].IsInc {
			return "RMWinc"
		}
		return "RMWapp"
	case "CheckAndMutate":
		return "CAM"
	}
	return o.Kind
}

func (p c06Param) name() string {
	var ts []string
	for _, t := range p.Threads {
		var os []string
		for _, o := range t {
			k := string(o.Key)
			if k == "" && o.Table != "" {
				k = o.Table[strings.LastIndex(o.Table, "/")+1:]
			}
			if k == "" {
				k = o.TableID
			}
			if o.Kind == "ModifyFamilies" {
				k = c14Tag(&o)
			}
			os = append(os, c06OpName(o)+"("+k+")")
		}
		ts = append(ts, strings.Join(os, ","))
	}
	return p.Engine + ":" + strings.Join(ts, "|")
}

func c06Scenario(c *fw.Ctx, p c06Param) *schedScenario {
	raw, _ := json.Marshal(p)
	return &schedScenario{Name: p.name(), Param: raw, Build: func() *schedInst {
		dir := ""
		if p.Engine == "disk" {
			btDirSeq++
			dir = filepath.Join(c.Scratch, fmt.Sprintf("c06d%d", btDirSeq))
			_ = os.MkdirAll(dir, 0o777)
		}
		base := bt.NewStorage(p.Engine, dir)
		// every database the storage hands out is remembered: a deleted table's handle stays open inside this process
		// (the emulator does not close it), and a "restart" within one process must not trip over its file lock -
		// a real restart is a new process
		var handedOut []bttest.Rows
		d := bt.NewDriverOn(p.Engine, dir, bt.PointStorage{Storage: base, IterPoints: p.Iter, OnCreate: func(_ string, r bttest.Rows) { handedOut = append(handedOut, r) }})
		model := bt.NewModel()
		setup := append(setupT(), p.Pre...)
		for i := range setup {
			model.Apply(&setup[i], nil, 0)
			d.Apply(&setup[i])
		}
		h := &btHistory{}
		var threads []func()
		for ti, ops := range p.Threads {
			ti, ops := ti, ops
			threads = append(threads, func() {
				for _, o := range ops {
					h.do(d, ti, o)
				}
			})
		}
		inst := &schedInst{Threads: threads}
		inst.Verdict = func(x *sched.Exec) (string, string, string) {
			defer func() {
				d.Close()
				if dir != "" {
					_ = os.RemoveAll(dir)
				}
			}()
			// a final complete read, after every thread has returned, closes the history
			var closing []string
			for _, o := range p.Close {
				r := h.do(d, len(p.Threads), o)
				closing = append(closing, o.String()+" -> "+respKey(r))
			}
			fin := h.do(d, len(p.Threads), bt.Op{Kind: "ReadRows", Table: tblT})
			closing = append(closing, "full read -> "+respKey(fin))
			if p.Restart && dir != "" {
				// what is served must be what is persisted
				d.Close()
				for _, r := range handedOut {
					func() {
						defer func() { _ = recover() }() // already closed with the server
						r.Close()
					}()
				}
				d2, err := bt.NewDriverReal("disk", dir)
				if err != nil {
					return "restart", "starting the emulator again on the directory fails: " + err.Error(), "restart"
				}
				var after []string
				for _, o := range p.Close {
					o := o
					after = append(after, o.String()+" -> "+respKey(d2.Apply(&o)))
				}
				after = append(after, "full read -> "+respKey(d2.Apply(&bt.Op{Kind: "ReadRows", Table: tblT})))
				d2.Close()
				for i := range closing {
					if closing[i] != after[i] {
						return "restart", fmt.Sprintf("after a stop and a start on the same directory the emulator answers differently:\n   before: %.300s\n   after:  %.300s", closing[i], after[i]), "restart"
					}
				}
			}
			for _, o := range h.ops {
				if r := o.Output.(bt.Resp); r.Panic != "" {
					return "panic", "panic in " + o.Input.(btIn).Op.String() + ": " + r.Panic, "panic"
				}
			}
			pm := btPorcupineModel(model)
			res := porcupine.CheckOperationsTimeout(pm, h.ops, 20*time.Second)
			outcome := bt.RowsString(fin.Rows)
			for _, o := range h.ops {
				r := o.Output.(bt.Resp)
				if r.Matched != nil {
					outcome += fmt.Sprintf(" m=%v", *r.Matched)
				}
			}
			switch res {
			case porcupine.Ok:
				return "", "", outcome
			case porcupine.Unknown:
				return "", "", "porcupine-timeout"
			}
			return "nonlinearizable", "no serial order of the requests that respects real time explains the responses and the final state:" + describeHistory(pm, h.ops), outcome
		}
		return inst
	}}
}

func init() {
	fw.Register(&fw.Check{
		ID:    "C06",
		Level: "model_checking",
		Rule: "(a) stateless model checking under a controlled scheduler: every interleaving within the preemption bound of 2-3 client threads issuing MutateRow (two cells), MutateRows (rows a,b), CheckAndMutateRow, ReadModifyWriteRow (increment / append) and ReadRows on colliding rows, on leveldb-mem and btree; scheduling points: table-registry mutex, table RWMutex, clock read, every Rows call of the storage engine, stream Send; oracle: linearizability of the recorded call/return history (plus a final full read) against the sequential reference model (porcupine). " +
			"(b) failure atomicity: every mutation list of length <=3 with an invalid element at position k through MutateRow, a MutateRows entry, both CheckAndMutateRow branches, and ReadModifyWriteRow rule lists failing at rule k; the row must equal the row before",
		Assumptions: []string{
			"code between two scheduling points runs atomically (sound for data-race-free code; the race detector side condition is C20)",
			"a MutateRows call is judged per entry (entries share the call/return interval)",
		},
		Run:    runC06,
		Replay: replayC06,
		Budget: schedBudget(75*time.Second, 20*time.Minute),
	})
}

func replayC06(c *fw.Ctx, raw json.RawMessage) (string, string) {
	var probe struct {
		Scenario string `json:"scenario"`
		Engine   string `json:"engine"`
	}
	_ = json.Unmarshal(raw, &probe)
	if probe.Scenario == "" && probe.Engine != "" {
		return replaySeqRaw(c, "C06", raw, c12Tag)
	}
	var cs schedCase
	if err := json.Unmarshal(raw, &cs); err != nil {
		return "bad-replay", err.Error()
	}
	var p c06Param
	if err := json.Unmarshal(cs.Param, &p); err != nil {
		return "bad-replay", err.Error()
	}
	_, class, detail, _ := runSchedOnce(c06Scenario(c, p), cs.Choices)
	if class == "" {
		return "", ""
	}
	return fmt.Sprintf("C06:%s:%s", cs.Scenario, class), detail
}

func c06Ops() map[string]func(key string) bt.Op {
	return map[string]func(string) bt.Op{
		"MutateRow": func(k string) bt.Op {
			return bt.Op{Kind: "MutateRow", Table: tblT, Key: []byte(k), Muts: []bt.Mut{mset("f", "m1", 1000, "M"), mset("g", "m2", 1000, "M")}}
		},
		"MutateRows": func(k string) bt.Op {
			return bt.Op{Kind: "MutateRows", Table: tblT, Entries: []bt.Entry{
				{Key: []byte(k), Muts: []bt.Mut{mset("f", "r1", 1000, "R"), mset("f", "c", 1000, "R")}},
				{Key: []byte("b"), Muts: []bt.Mut{mset("f", "r1", 1000, "R")}}}}
		},
		"CAM": func(k string) bt.Op {
			// "column c has a cell" -> write d, else write c
			return bt.Op{Kind: "CheckAndMutate", Table: tblT, Key: []byte(k), Pred: &bt.Filter{Kind: "chain", Subs: []*bt.Filter{re("fam_re", "f"), re("qual_re", "c")}},
				TrueM: []bt.Mut{mset("f", "d", 1000, "saw-c")}, FalseM: []bt.Mut{mset("f", "c", 1000, "claimed")}}
		},
		"RMWinc": func(k string) bt.Op {
			return bt.Op{Kind: "RMW", Table: tblT, Key: []byte(k), Rules: []bt.Rule{{Fam: "f", Qual: []byte("n"), IsInc: true, Inc: 1}, {Fam: "f", Qual: []byte("total"), IsInc: true, Inc: 10}}}
		},
		"RMWapp": func(k string) bt.Op {
			return bt.Op{Kind: "RMW", Table: tblT, Key: []byte(k), Rules: []bt.Rule{{Fam: "f", Qual: []byte("s"), Append: []byte("x")}, {Fam: "g", Qual: []byte("s"), Append: []byte("y")}}}
		},
		"Read": func(k string) bt.Op {
			return bt.Op{Kind: "ReadRows", Table: tblT, HasRowSet: true, Keys: [][]byte{[]byte(k)}}
		},
		"DelRow": func(k string) bt.Op {
			return bt.Op{Kind: "MutateRow", Table: tblT, Key: []byte(k), Muts: []bt.Mut{{Kind: "delrow"}}}
		},
	}
}

func runC06(c *fw.Ctx) {
	mk := c06Ops()
	names := []string{"MutateRow", "MutateRows", "CAM", "RMWinc", "RMWapp", "Read", "DelRow"}
	var scen []c06Param
	engines := []string{"mem", "btree"}
	pre := []bt.Op{{Kind: "MutateRow", Table: tblT, Key: []byte("a"), Muts: []bt.Mut{mset("g", "z", 1000, "pre")}}}
	for _, eng := range engines {
		// all unordered pairs of request kinds on row a, one request per thread
		for i := range names {
			for j := i; j < len(names); j++ {
				scen = append(scen, c06Param{Engine: eng, Pre: pre, Threads: [][]bt.Op{{mk[names[i]]("a")}, {mk[names[j]]("a")}}})
			}
		}
		// two requests per thread
		scen = append(scen,
			c06Param{Engine: eng, Threads: [][]bt.Op{{mk["RMWinc"]("a"), mk["RMWinc"]("a")}, {mk["RMWinc"]("a"), mk["Read"]("a")}}},
			c06Param{Engine: eng, Threads: [][]bt.Op{{mk["CAM"]("a"), mk["DelRow"]("a")}, {mk["CAM"]("a"), mk["Read"]("a")}}},
			c06Param{Engine: eng, Pre: pre, Threads: [][]bt.Op{{mk["MutateRows"]("a"), mk["Read"]("b")}, {mk["RMWapp"]("b"), mk["Read"]("a")}}},
		)
		// three threads
		w := []string{"MutateRow", "CAM", "RMWinc", "RMWapp"}
		for i := range w {
			for j := i; j < len(w); j++ {
				for k := j; k < len(w); k++ {
					scen = append(scen, c06Param{Engine: eng, Threads: [][]bt.Op{{mk[w[i]]("a")}, {mk[w[j]]("a")}, {mk[w[k]]("a")}}})
				}
			}
		}
		scen = append(scen,
			c06Param{Engine: eng, Threads: [][]bt.Op{{mk["RMWinc"]("a")}, {mk["RMWinc"]("a")}, {mk["Read"]("a")}}},
			c06Param{Engine: eng, Threads: [][]bt.Op{{mk["CAM"]("a")}, {mk["CAM"]("a")}, {mk["Read"]("a")}}},
			c06Param{Engine: eng, Pre: pre, Threads: [][]bt.Op{{mk["MutateRow"]("a")}, {mk["DelRow"]("a")}, {mk["Read"]("a")}}},
		)
	}
	nSched := len(scen)
	for i, p := range scen {
		if !c.Mine(int64(i)) {
			continue
		}
		if c.Expired() {
			c.Incomplete("time budget reached before all scenarios were explored")
			break
		}
		sc := c06Scenario(c, p)
		if !selfCheckDeterminism(c, "C06", sc) {
			return
		}
		bound := 2
		if len(p.Threads) == 2 && len(p.Threads[0]) == 1 {
			bound = -1 // two single-request clients: every interleaving, in both tiers
		} else if c.Thorough() {
			bound = 3
		}
		n := exploreScenario(c, "C06", sc, bound, 0)
		c.Note("execs:"+sc.Name, n)
	}
	c.Bound("sched_scenarios", nSched)
	// (b) failure atomicity, sequential
	valid := []bt.Mut{mset("f", "a", 1000, "x"), mset("g", "a", 2000, "y"), mdelcol("f", "a"), mdelfam("g"), {Kind: "delrow"}, mset("f", "b", -1, "s")}
	invalid := []bt.Mut{mset("nofam", "a", 1000, "x"), mset("f", "a", 1500, "x"), mdelcolr("f", "a", 2000, 1000), mdelfam("nofam"), {Kind: "none"}}
	var lists [][]bt.Mut
	for n := 1; n <= 3; n++ {
		for pos := 0; pos < n; pos++ {
			var gen func(cur []bt.Mut)
			gen = func(cur []bt.Mut) {
				if len(cur) == n {
					lists = append(lists, append([]bt.Mut(nil), cur...))
					return
				}
				if len(cur) == pos {
					for _, m := range invalid {
						gen(append(cur, m))
					}
					return
				}
				for _, m := range valid {
					gen(append(cur, m))
				}
			}
			gen(nil)
		}
	}
	priors := [][]bt.Op{nil,
		{{Kind: "MutateRow", Table: tblT, Key: []byte("a"), Muts: []bt.Mut{mset("f", "a", 1000, "old"), mset("g", "a", 1000, "old")}}},
		{{Kind: "MutateRow", Table: tblT, Key: []byte("a"), Muts: []bt.Mut{mset("f", "c", 1000, "c")}}, {Kind: "MutateRow", Table: tblT, Key: []byte("b"), Muts: []bt.Mut{mset("f", "a", 1000, "other")}}},
	}
	var item int64 = int64(nSched)
	seqEngines := []string{"btree", "mem"}
	for _, eng := range seqEngines {
		for _, prior := range priors {
			for li, l := range lists {
				if eng == "mem" && !c.Thorough() && li%2 != 0 {
					continue
				}
				item++
				if !c.Mine(item) {
					continue
				}
				if c.Expired() {
					c.Incomplete("time budget reached in the failure-atomicity pass")
					return
				}
				okList := []bt.Mut{mset("f", "ok", 1000, "ok")}
				carriers := []bt.Op{
					{Kind: "MutateRow", Table: tblT, Key: []byte("a"), Muts: l},
					{Kind: "MutateRows", Table: tblT, Entries: []bt.Entry{{Key: []byte("b"), Muts: okList}, {Key: []byte("a"), Muts: l}, {Key: []byte("a"), Muts: okList}}},
					{Kind: "CheckAndMutate", Table: tblT, Key: []byte("a"), Pred: re("qual_re", "c"), TrueM: l, FalseM: l},
					{Kind: "CheckAndMutate", Table: tblT, Key: []byte("a"), TrueM: l, FalseM: okList},
					{Kind: "CheckAndMutate", Table: tblT, Key: []byte("a"), TrueM: okList, FalseM: l},
				}
				for _, car := range carriers {
					ops := append(append([]bt.Op(nil), prior...), car)
					m, cl, at, h := runSeq(c, eng, setupT(), ops, false)
					c.Eval(1)
					c.Trace(1)
					c.Trans(1)
					if m != "" {
						t := "setup"
						if at >= 0 {
							t = c12Tag(&ops[at])
						}
						sc := seqCase{Engine: eng, Setup: setupT(), Ops: ops}
						c.Violate(fmt.Sprintf("C06:%s:%s:%s", eng, cl, t), m+"\n  sequence: "+bt.OpsString(ops), sc, func() string {
							s, _ := replaySeq(c, "C06", sc, c12Tag)
							return s
						})
						continue
					}
					if cl != "ambiguous" {
						c.State(h)
					}
				}
			}
			// read-modify-write rule lists failing at rule k
			good := []bt.Rule{{Fam: "f", Qual: []byte("a"), Append: []byte("+")}, {Fam: "g", Qual: []byte("n"), IsInc: true, Inc: 5}}
			bad := []bt.Rule{{Fam: "nofam", Qual: []byte("a"), Append: []byte("+")}, {Fam: "f", Qual: []byte("a"), IsInc: true, Inc: 1}, {Fam: "f", Qual: []byte("a"), Unset: true}}
			for n := 1; n <= 3; n++ {
				for pos := 0; pos < n; pos++ {
					for _, b := range bad {
						for gi := 0; gi < 4; gi++ {
							var rl []bt.Rule
							for i := 0; i < n; i++ {
								if i == pos {
									rl = append(rl, b)
								} else {
									rl = append(rl, good[(gi>>uint(i%2))&1])
								}
							}
							item++
							if !c.Mine(item) {
								continue
							}
							// "f:a += 1" is only invalid when f:a holds a value that is not 8 bytes: make sure it does
							ops := append(append([]bt.Op(nil), prior...), bt.Op{Kind: "MutateRow", Table: tblT, Key: []byte("a"), Muts: []bt.Mut{mset("f", "a", 1000, "abc")}},
								bt.Op{Kind: "RMW", Table: tblT, Key: []byte("a"), Rules: rl})
							m, cl, at, h := runSeq(c, eng, setupT(), ops, false)
							c.Eval(1)
							c.Trace(1)
							c.Trans(1)
							if m != "" {
								t := "setup"
								if at >= 0 {
									t = c13Tag(&ops[at])
								}
								sc := seqCase{Engine: eng, Setup: setupT(), Ops: ops}
								c.Violate(fmt.Sprintf("C06:%s:%s:%s", eng, cl, t), m+"\n  sequence: "+bt.OpsString(ops), sc, nil)
								continue
							}
							c.State(h)
						}
					}
				}
			}
		}
	}
	c.Bound("failure_atomicity_lists", len(lists))
}
