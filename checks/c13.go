package checks

import (
	"encoding/json"
	"fmt"
	"math"
	"time"

	"verif/bt"
	"verif/fw"
)

// C13 — ReadModifyWriteRow increments and appends against the latest cell.

func c13Tag(o *bt.Op) string {
	if o.Kind != "RMW" {
		return o.Kind
	}
	s := "RMW["
	for i, r := range o.Rules {
		if i > 0 {
			s += ","
		}
		switch {
		case r.Unset:
			s += "unset"
		case r.IsInc:
			s += "inc"
		default:
			s += "append"
		}
		if r.Fam == "nofam" {
			s += "-unknown-family"
		}
	}
	return s + "]"
}

func init() {
	fw.Register(&fw.Check{
		ID:    "C13",
		Level: "model_checking",
		Rule: "every rule list of length <=3 over {increment 1,-1,MaxInt64,MinInt64; append \"\",\"x\"} x columns {f:a, f:b, nofam:a} (repeats included, plus an unset rule) x prior row states (column absent, 8/7/9-byte and empty values, two versions, newest cell after/at/before the server clock) x injected clock values x engines; " +
			"each executed as one ReadModifyWriteRow on a fresh instance; oracle: response row, complete table state and a follow-up full read against the reference model",
		Assumptions: []string{"an empty rule list is not exercised (statement silent)", "failure = any non-OK status"},
		Run:         runC13,
		Replay:      func(c *fw.Ctx, raw json.RawMessage) (string, string) { return replaySeqRaw(c, "C13", raw, c13Tag) },
		Budget: func(tier string) time.Duration {
			if tier == "thorough" {
				return 15 * time.Minute
			}
			return 60 * time.Second
		},
	})
}

func be8(v int64) string {
	b := make([]byte, 8)
	for i := 0; i < 8; i++ {
		b[7-i] = byte(uint64(v) >> (8 * i))
	}
	return string(b)
}

func runC13(c *fw.Ctx) {
	var rules []bt.Rule
	for _, col := range []struct{ f, q string }{{"f", "a"}, {"f", "b"}, {"nofam", "a"}} {
		for _, n := range []int64{1, 0, -1, math.MaxInt64, math.MinInt64} { // 0: an increment that changes nothing still writes a new version
			rules = append(rules, bt.Rule{Fam: col.f, Qual: []byte(col.q), IsInc: true, Inc: n})
		}
		for _, a := range []string{"", "x"} {
			rules = append(rules, bt.Rule{Fam: col.f, Qual: []byte(col.q), Append: []byte(a)})
		}
	}
	rules = append(rules, bt.Rule{Fam: "f", Qual: []byte("a"), Unset: true})
	row := func(muts ...bt.Mut) []bt.Op {
		return []bt.Op{{Kind: "MutateRow", Table: tblT, Key: []byte("r"), Muts: muts}}
	}
	priors := [][]bt.Op{
		nil, // column (and row) absent
		row(mset("f", "a", 1000, be8(41))),
		row(mset("f", "a", 1000, "1234567")),
		row(mset("f", "a", 1000, "123456789")),
		row(mset("f", "a", 1000, "")),
		row(mset("f", "a", 2000, be8(-1)), mset("f", "a", 1000, be8(7))),
		row(mset("f", "a", 9000, be8(math.MaxInt64))),                  // newest cell in the future of every clock below
		row(mset("f", "a", 5000, "fut"), mset("f", "b", 1000, be8(1))), // exactly at / after / before depending on the clock
		row(mset("g", "z", 1000, "other")),
		// the family already holds OTHER columns, sorting after / before and after the ones the rules create
		row(mset("f", "z", 1000, be8(5))),
		row(mset("f", "0", 1000, "lo"), mset("f", "ab", 1000, "mid"), mset("f", "z", 2000, "hi")),
	}
	clocks := []int64{1000, 1999, 5000, 5001}
	engines := []string{"btree", "mem"}
	maxLen := 2
	if c.Thorough() {
		engines = []string{"btree", "mem", "disk"}
		maxLen = 3
	}
	var lists [][]bt.Rule
	var gen func(cur []bt.Rule, n int)
	gen = func(cur []bt.Rule, n int) {
		if len(cur) > 0 {
			lists = append(lists, append([]bt.Rule(nil), cur...))
		}
		if n == 0 {
			return
		}
		for _, r := range rules {
			gen(append(cur, r), n-1)
		}
	}
	var item int64
	for _, eng := range engines {
		ml := maxLen
		if eng == "disk" {
			ml = 1
		}
		if eng == "mem" && c.Thorough() {
			ml = 2
		}
		lists = nil
		gen(nil, ml)
		for pi, prior := range priors {
			for _, clk := range clocks {
				for _, rl := range lists {
					item++
					if !c.Mine(item) {
						continue
					}
					if c.Expired() {
						c.Incomplete("time budget reached")
						return
					}
					ops := append([]bt.Op{{Kind: "SetClock", Clock: clk}}, prior...)
					ops = append(ops, bt.Op{Kind: "RMW", Table: tblT, Key: []byte("r"), Rules: rl})
					m, cl, at, h := runSeq(c, eng, setupT(), ops, false)
					c.Eval(1)
					c.Trace(1)
					c.Trans(1)
					if m != "" {
						t := "setup"
						if at >= 0 {
							t = c13Tag(&ops[at])
						}
						sc := seqCase{Engine: eng, Setup: setupT(), Ops: ops}
						c.Violate(fmt.Sprintf("C13:%s:%s:%s:prior%d", eng, cl, t, pi), m+"\n  sequence: "+bt.OpsString(ops), sc, func() string {
							s, _ := replaySeq(c, "C13", sc, c13Tag)
							if s != "" {
								s += fmt.Sprintf(":prior%d", pi)
							}
							return s
						})
						continue
					}
					if len(rl) >= 2 && lastRunResp.Code != "OK" {
						// a request rejected after an earlier rule had been applied in memory: the NEXT write to the row must
						// build on the stored row, not on what the rejected request left behind
						for _, fq := range []string{"a", "b"} {
							ops2 := append(append([]bt.Op(nil), ops...), bt.Op{Kind: "RMW", Table: tblT, Key: []byte("r"), Rules: []bt.Rule{{Fam: "f", Qual: []byte(fq), Append: []byte("+next")}}})
							m2, cl2, _, _ := runSeq(c, eng, setupT(), ops2, false)
							c.Eval(1)
							c.Trans(1)
							if m2 != "" {
								sc := seqCase{Engine: eng, Setup: setupT(), Ops: ops2}
								c.Violate(fmt.Sprintf("C13:%s:%s:after-rejected:prior%d", eng, cl2, pi), m2+"\n  sequence: "+bt.OpsString(ops2), sc, nil)
								break
							}
						}
					}
					if item%4999 == 0 {
						c.Sample(map[string]interface{}{"engine": eng, "sequence": bt.OpsString(ops)})
					}
					if cl != "ambiguous" {
						c.State(h)
					}
					c.Outcome(fmt.Sprintf("prior%d", pi))
				}
			}
		}
		// rule lists far longer than any per-request buffer is likely to be sized for: 300 increments of one column,
		// 300 appends, and 150 columns touched once each
		for li, mk := range []func(i int) bt.Rule{
			func(i int) bt.Rule { return bt.Rule{Fam: "f", Qual: []byte("a"), IsInc: true, Inc: 1} },
			func(i int) bt.Rule { return bt.Rule{Fam: "f", Qual: []byte("b"), Append: []byte{byte('a' + i%26)}} },
			func(i int) bt.Rule {
				return bt.Rule{Fam: "f", Qual: []byte(fmt.Sprintf("q%03d", (i*7)%150)), IsInc: i%2 == 0, Inc: int64(i), Append: []byte("z")}
			},
		} {
			item++
			if !c.Mine(item) {
				continue
			}
			var rl []bt.Rule
			for i := 0; i < 300; i++ {
				r := mk(i)
				if r.IsInc {
					r.Append = nil
				}
				rl = append(rl, r)
			}
			ops := []bt.Op{{Kind: "SetClock", Clock: 5000}, {Kind: "MutateRow", Table: tblT, Key: []byte("r"), Muts: []bt.Mut{mset("f", "a", 1000, be8(41))}},
				{Kind: "RMW", Table: tblT, Key: []byte("r"), Rules: rl}}
			m, cl, at, h := runSeq(c, eng, setupT(), ops, false)
			c.Eval(1)
			c.Trace(1)
			c.Trans(1)
			if m != "" {
				t := "setup"
				if at >= 0 {
					t = c13Tag(&ops[at])
				}
				if len(m) > 1200 {
					m = m[:1200] + "…"
				}
				sc := seqCase{Engine: eng, Setup: setupT(), Ops: ops}
				c.Violate(fmt.Sprintf("C13:%s:%s:%s:long%d", eng, cl, t, li), m, sc, func() string {
					s, _ := replaySeq(c, "C13", sc, c13Tag)
					if s != "" {
						s += fmt.Sprintf(":long%d", li)
					}
					return s
				})
				continue
			}
			if cl != "ambiguous" {
				c.State(h)
			}
			c.Outcome("long-rule-list")
		}
		c.Bound(eng+"_max_rule_list_len", ml)
	}
	c.Bound("long_rule_lists", 300)
	c.Bound("rules", len(rules))
	c.Bound("prior_states", len(priors))
	c.Bound("clocks", clocks)
}
