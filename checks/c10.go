package checks

import (
	"fmt"
	"strings"
	"time"

	"verif/fw"
	"verif/gcs"
)

// C10 — GCS: generation and metageneration follow the versioning laws.

// gcsBFS explores every sequence over the alphabet up to depth (dedup on the model state, which
// abstracts generation values but keeps metagenerations, contents and metadata).
func gcsBFS(c *fw.Ctx, id, store string, step int64, setup, alpha []GOp, depth int, forms bool, tag func(*GOp) string, label string) {
	frontier := [][]int{{}}
	seen := map[uint64]bool{}
	completed := 0
	for d := 1; d <= depth; d++ {
		var next [][]int
		rec := d > btShardDepth || c.Shard == 0
		for _, seq := range frontier {
			for k := range alpha {
				if c.Expired() {
					c.Incomplete(fmt.Sprintf("time budget reached at depth %d (%s)", d, label))
					c.Bound(label+"_depth_completed", completed)
					return
				}
				ns := append(append([]int(nil), seq...), k)
				ops := append([]GOp(nil), setup...)
				for _, x := range ns {
					ops = append(ops, alpha[x])
				}
				gc := gcsCase{Store: store, Step: step, Ops: ops, Forms: forms}
				var ok bool
				var h uint64
				if rec {
					ok, h = tryGCS(c, id, gc, tag)
					if ok {
						c.Outcome("ok:" + tag(&alpha[k]))
						if len(ns) == 2 && k%5 == 0 {
							c.Sample(map[string]interface{}{"store": store, "clock_step_ns": step, "program": GOpsString(ops[len(setup):])})
						}
					}
				} else {
					m, _, hh := runGCS(c, gc, false, tag)
					ok, h = m == "", hh
				}
				if !ok || seen[h] {
					continue
				}
				seen[h] = true
				if d < depth {
					next = append(next, ns)
				}
			}
		}
		if d == btShardDepth && c.N > 1 {
			var mine [][]int
			for i, s := range next {
				if i%c.N == c.Shard {
					mine = append(mine, s)
				}
			}
			next = mine
		}
		frontier = next
		completed = d
	}
	c.Bound(label+"_depth_completed", completed)
}

func c10Tag(o *GOp) string {
	t := o.Kind
	switch o.Kind {
	case "Upload":
		t += ":" + o.Proto
		if o.Meta.Md5Hash != "" {
			t += "+md5"
		}
	case "Patch":
		b := string(o.PatchBody)
		switch {
		case len(b) > 0 && b[len(b)-1] != '}':
			t += ":malformed"
		case containsAny(b, `"generation"`, `"md5Hash"`, `"size"`, `"name"`, `"bucket"`, `"metageneration"`, `"id"`, `"timeCreated"`, `"updated"`, `"crc32c"`, `"etag"`):
			t += ":intrinsic-fields"
		}
	}
	if len(o.Conds) > 0 {
		t += "+cond"
	}
	return t + ":" + o.Name
}

func containsAny(s string, subs ...string) bool {
	for _, x := range subs {
		if len(x) > 0 && len(s) >= len(x) {
			for i := 0; i+len(x) <= len(s); i++ {
				if s[i:i+len(x)] == x {
					return true
				}
			}
		}
	}
	return false
}

func init() {
	fw.Register(&fw.Check{
		ID:    "C10",
		Level: "model_checking",
		Rule: "explicit-state BFS (dedup on model state) over sequences of writes by every protocol, compose, copy, patches of every user-settable field, patches naming intrinsic fields, malformed patches, reads, listings, failing requests (precondition, MD5), deletes and re-creations on two names, executed on the real HTTP handler for both stores and for wall-clock steps of 1 ns, 1 µs and 1 s between clock readings (back-to-back writes); " +
			"after every request: per-name generation strictly greater than every earlier one, metageneration 1 after a write and +1 per patch, patch merges only supplied user-settable fields, nothing else changes, and the numbers in response headers, bodies, metadata GETs and listings agree",
		Assumptions: []string{"the wall clock (vtime seam) is strictly increasing, never frozen or stepped back", "file store on tmpfs/ext4 with nanosecond mtimes"},
		Run:         runC10,
		Replay:      gcsReplay("C10", c10Tag),
		Budget: func(tier string) time.Duration {
			if tier == "thorough" {
				return 15 * time.Minute
			}
			return 120 * time.Second
		},
	})
}

func runC10(c *fw.Ctx) {
	ct := gcs.ObjMeta{ContentType: "text/plain"}
	P := func(n, body string) GOp {
		b := "b"
		if strings.HasPrefix(n, "b2:") {
			b, n = "b2", strings.TrimPrefix(n, "b2:")
		}
		return GOp{Kind: "Patch", Bucket: b, Name: n, PatchBody: []byte(body)}
	}
	alpha := []GOp{
		{Kind: "Upload", Proto: "media", Bucket: "b", Name: "x", Data: []byte("1"), Meta: ct},
		{Kind: "Upload", Proto: "multipart", Bucket: "b", Name: "x", Data: []byte("22"), Meta: gcs.ObjMeta{ContentType: "text/two", Metadata: map[string]string{"k": "v"}}},
		{Kind: "Upload", Proto: "resumable", Bucket: "b", Name: "y", Data: []byte("333"), Meta: gcs.ObjMeta{ContentType: "text/three", CacheControl: "max-age=1"}},
		{Kind: "Compose", Bucket: "b", Name: "x", Srcs: []GSrc{{Name: "y"}, {Name: "y"}}, Meta: gcs.ObjMeta{ContentType: "text/composed"}},
		{Kind: "Copy", Bucket: "b", Name: "y", DstBucket: "b", DstName: "x"},
		{Kind: "Copy", Bucket: "b", Name: "x", DstBucket: "b", DstName: "y"},
		{Kind: "Copy", Bucket: "b", Name: "x", DstBucket: "b", DstName: "x"}, // onto itself: still a content write of the destination
		// across buckets, onto a name the source bucket also holds / does not hold
		{Kind: "Copy", Bucket: "b", Name: "x", DstBucket: "b2", DstName: "x"},
		{Kind: "Copy", Bucket: "b", Name: "y", DstBucket: "b2", DstName: "only-in-b2"},
		{Kind: "Copy", Bucket: "b2", Name: "x", DstBucket: "b", DstName: "y"},
		// a rewrite whose body names fields for the destination (honoured or not: one new version either way)
		{Kind: "Copy", Bucket: "b", Name: "x", DstBucket: "b", DstName: "y", Meta: gcs.ObjMeta{ContentType: "text/rewritten", Metadata: map[string]string{"rw": "1"}}},
		P("b2:x", `{"metadata":{"in":"b2"}}`),
		P("x", `{"metadata":{"a":"1"}}`),
		P("x", `{"contentType":"text/patched"}`),
		P("x", `{"cacheControl":"no-store","contentDisposition":"attachment","contentLanguage":"en","metadata":{"k":"w"}}`),
		P("y", `{"metadata":{"b":"2"}}`),
		P("x", `{"generation":"1","metageneration":"77","md5Hash":"AAAAAAAAAAAAAAAAAAAAAA==","size":"999","name":"zzz","bucket":"elsewhere","id":"i","etag":"e","crc32c":"AAAAAA==","timeCreated":"2001-01-01T00:00:00Z","updated":"2001-01-01T00:00:00Z","metadata":{"h":"1"}}`),
		P("x", `{"metadata":{"broken":"1"},`),
		{Kind: "Upload", Proto: "media", Bucket: "b", Name: "x", Data: []byte("never"), Meta: ct, Conds: map[string]string{"ifGenerationMatch": "other"}},
		{Kind: "Upload", Proto: "multipart", Bucket: "b", Name: "x", Data: []byte("never"), Meta: gcs.ObjMeta{ContentType: "t/x", Md5Hash: gcs.MD5b64([]byte("else"))}},
		{Kind: "Patch", Bucket: "b", Name: "x", PatchBody: []byte(`{"metadata":{"never":"1"}}`), Conds: map[string]string{"ifMetagenerationMatch": "other"}},
		{Kind: "Delete", Bucket: "b", Name: "x"},
		{Kind: "Delete", Bucket: "b", Name: "y"},
		{Kind: "List", Bucket: "b"},
		{Kind: "Get", Bucket: "b", Name: "x", Form: "json"},
		{Kind: "GetMeta", Bucket: "b", Name: "y"},
	}
	setup := []GOp{{Kind: "CreateBucket", Bucket: "b"}, {Kind: "CreateBucket", Bucket: "b2"}}
	depth := 5
	steps := []int64{1, 1000, 1_000_000_000}
	if c.Thorough() {
		depth = 7
	}
	for _, store := range []string{"mem", "file"} {
		for _, st := range steps {
			d := depth
			if !c.Thorough() && st != 1 {
				d = depth - 1
			}
			gcsBFS(c, "C10", store, st, setup, alpha, d, false, c10Tag, fmt.Sprintf("%s_step%dns", store, st))
		}
	}
	// second alphabet: requests that say as little as possible - writes without content type and without metadata
	// (a write replaces the whole object, whatever the replaced version carried), user-metadata entries and fields
	// whose value is the empty string (values like any other) - against writes and patches that say a lot
	alphaE := []GOp{
		{Kind: "Upload", Proto: "multipart", Bucket: "b", Name: "x", Data: []byte("4444"), Meta: gcs.ObjMeta{}},
		{Kind: "Upload", Proto: "media", Bucket: "b", Name: "x", Data: []byte("55555"), Meta: gcs.ObjMeta{}},
		{Kind: "Upload", Proto: "resumable", Bucket: "b", Name: "x", Data: []byte("666666"), Meta: gcs.ObjMeta{Metadata: map[string]string{"empty": "", "k": "r"}}},
		{Kind: "Upload", Proto: "media", Bucket: "b", Name: "x", Data: []byte("1"), Meta: gcs.ObjMeta{ContentType: "application/pdf"}},
		{Kind: "Upload", Proto: "multipart", Bucket: "b", Name: "x", Data: []byte("22"), Meta: gcs.ObjMeta{ContentType: "text/two", CacheControl: "max-age=1", ContentDisposition: "inline", ContentLanguage: "de", Metadata: map[string]string{"k": "v", "l": "w"}}},
		{Kind: "Compose", Bucket: "b", Name: "x", Srcs: []GSrc{{Name: "x"}, {Name: "x"}}, Meta: gcs.ObjMeta{}},
		{Kind: "Copy", Bucket: "b", Name: "x", DstBucket: "b", DstName: "y"},
		{Kind: "Copy", Bucket: "b", Name: "y", DstBucket: "b", DstName: "x"},
		{Kind: "Copy", Bucket: "b", Name: "x", DstBucket: "b", DstName: "y", Meta: gcs.ObjMeta{CacheControl: "no-store"}},
		P("x", `{"metadata":{"e":"","k":""}}`),
		P("x", `{"contentType":"","cacheControl":""}`),
		P("x", `{"contentType":"text/patched","metadata":{"p":"1"}}`),
		P("x", `{}`),
		// content types in spellings a canonicaliser would rewrite: what was sent is what is stored and served
		{Kind: "Upload", Proto: "media", Bucket: "b", Name: "x", Data: []byte("7"), Meta: gcs.ObjMeta{ContentType: "text/html;charset=UTF-8"}},
		{Kind: "Upload", Proto: "multipart", Bucket: "b", Name: "x", Data: []byte("88"), Meta: gcs.ObjMeta{ContentType: "Application/JSON"}},
		P("x", `{"contentType":"multipart/x; z=1; a=\"q d\""}`),
		{Kind: "Delete", Bucket: "b", Name: "x"},
		{Kind: "GetMeta", Bucket: "b", Name: "x"},
		{Kind: "Get", Bucket: "b", Name: "x", Form: "json"},
		{Kind: "List", Bucket: "b"},
	}
	depthE := 4
	if c.Thorough() {
		depthE = 5
	}
	for _, store := range []string{"mem", "file"} {
		gcsBFS(c, "C10", store, 1, setup, alphaE, depthE, false, c10Tag, fmt.Sprintf("%s_empty_values", store))
	}
	c.Bound("alphabet", len(alpha))
	c.Bound("alphabet_empty_values", len(alphaE))
	c.Bound("clock_steps_ns", steps)
}
