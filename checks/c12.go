package checks

import (
	"encoding/json"
	"fmt"
	"time"

	"verif/bt"
	"verif/fw"
)

// C12 — CheckAndMutateRow applies exactly the branch its predicate selects.

func c12Tag(o *bt.Op) string {
	if o.Kind == "CheckAndMutate" {
		return "CheckAndMutate:" + filterShape(o.Pred) + ":" + c01Tag(&bt.Op{Kind: "MutateRow", Muts: o.TrueM}) + "/" + c01Tag(&bt.Op{Kind: "MutateRow", Muts: o.FalseM})
	}
	return c01Tag(o)
}

func init() {
	fw.Register(&fw.Check{
		ID:    "C12",
		Level: "model_checking",
		Rule: "every row state reached by a BFS over single-mutation histories (dedup on model state + raw dump) x every predicate of a catalogue (none, leaf basis, compositions that strip/limit to zero cells, block-all, erroring ones) x every ordered pair of mutation lists over {[], [set], [delete row], [set, invalid], [invalid], [set g]}; " +
			"each executed as one CheckAndMutateRow on a fresh instance of the real service; oracle: predicate_matched, applied branch and complete table state against the reference model",
		Assumptions: []string{"an invalid predicate or mutation must fail the request with any non-OK status and leave the row unchanged"},
		Run:         runC12,
		Replay:      func(c *fw.Ctx, raw json.RawMessage) (string, string) { return replaySeqRaw(c, "C12", raw, c12Tag) },
		Budget: func(tier string) time.Duration {
			if tier == "thorough" {
				return 15 * time.Minute
			}
			return 150 * time.Second
		},
	})
}

func c12Preds() []*bt.Filter {
	ps := []*bt.Filter{nil}
	ps = append(ps, c05Basis20()...)
	ps = append(ps,
		&bt.Filter{Kind: "chain", Subs: []*bt.Filter{{Kind: "strip"}, fn("row_limit", 0)}},
		&bt.Filter{Kind: "chain", Subs: []*bt.Filter{re("fam_re", "f"), fn("row_offset", 5)}},
		&bt.Filter{Kind: "chain", Subs: []*bt.Filter{re("fam_re", "g"), {Kind: "strip"}}},
		&bt.Filter{Kind: "chain", Subs: []*bt.Filter{fn("col_limit", 0), {Kind: "pass", B: true}}},
		&bt.Filter{Kind: "interleave", Subs: []*bt.Filter{{Kind: "block", B: true}, {Kind: "block", B: true}}},
		&bt.Filter{Kind: "interleave", Subs: []*bt.Filter{{Kind: "block", B: true}, re("fam_re", "g")}},
		&bt.Filter{Kind: "cond", Pred: re("fam_re", "g"), True: &bt.Filter{Kind: "block", B: true}, False: &bt.Filter{Kind: "pass", B: true}},
		&bt.Filter{Kind: "cond", Pred: fn("row_limit", 0), True: &bt.Filter{Kind: "pass", B: true}},
		&bt.Filter{Kind: "cond", Pred: &bt.Filter{Kind: "strip"}, True: fn("row_offset", 1)},
		&bt.Filter{Kind: "pass"}, &bt.Filter{Kind: "block"}, fn("row_offset", -1), fn("col_limit", -1),
		&bt.Filter{Kind: "chain", Subs: []*bt.Filter{{Kind: "pass", B: true}}},
		&bt.Filter{Kind: "ts_range", T0: 1500}, &bt.Filter{Kind: "sample", P: 2},
		&bt.Filter{Kind: "ts_range", T0: 0, T1: 1000}, fn("row_offset", 1), fn("row_offset", 3),
		&bt.Filter{Kind: "val_range", SK: 1, Start: []byte("y")},
		re("key_re", "a"), re("key_re", "b"), re("qual_re", ""), re("val_re", ""),
	)
	return ps
}

func runC12(c *fw.Ctx) {
	core := c01Core()[:15]
	var alpha []bt.Op
	for _, m := range core {
		alpha = append(alpha, bt.Op{Kind: "MutateRow", Table: tblT, Key: []byte("a"), Muts: []bt.Mut{m}})
	}
	// histories that leave a row stored WITHOUT any cell (a family drop empties it; the row object stays in the
	// store), and a family that comes back: "the row has a cell" must be judged on cells, not on stored rows
	alpha = append(alpha,
		bt.Op{Kind: "ModifyFamilies", Table: tblT, Mods: []bt.Mod{{ID: "g", Op: "drop"}}},
		bt.Op{Kind: "ModifyFamilies", Table: tblT, Mods: []bt.Mod{{ID: "g", Op: "drop"}, {ID: "g", Op: "create", GC: &bt.GC{Kind: "maxver", N: 1}}}},
		bt.Op{Kind: "DropRowRange", Table: tblT, Prefix: []byte("a")},
	)
	// a server clock between two milliseconds: server-assigned timestamps (-1) in the selected branch must be
	// accepted exactly as MutateRow accepts them
	alpha = append(alpha, bt.Op{Kind: "SetClock", Clock: 1234567})
	lists := [][]bt.Mut{
		nil,
		{mset("f", "n", 5000, "new")},
		{{Kind: "delrow"}},
		{mset("f", "n", 5000, "new"), mset("nofam", "n", 5000, "new")},
		{mset("f", "n", 1500, "bad")},
		{mset("g", "a", -1, "srv"), mdelcol("f", "a")},
		{mset("f", "n", 5000, "new"), mdelcolr("f", "absent-column", 2000, 1000)}, // invalid range on a column the row does not have
	}
	preds := c12Preds()
	engines := []string{"btree", "mem"}
	depth := 2
	if c.Thorough() {
		engines = []string{"btree", "mem", "disk"}
		depth = 3
	}
	for _, eng := range engines {
		eng := eng
		d := depth
		if eng == "disk" {
			d = 1
		}
		if eng == "mem" && !c.Thorough() {
			d = 1
		}
		var item int64
		b := &btSeq{ID: "C12", Engine: eng, Setup: setupT(), Alphabet: alpha, Depth: d, Dedup: true, Tag: c12Tag}
		seen := map[uint64]bool{}
		b.AtState = func(seq []int, depth int) {
			base := b.ops(seq)
			_, _, _, h := runSeq(c, eng, b.Setup, base, false)
			if seen[h] {
				return
			}
			seen[h] = true
			for _, p := range preds {
				for _, tm := range lists {
					for _, fm := range lists {
						item++
						if depth <= btShardDepth && !c.Mine(item) {
							continue
						}
						if c.Expired() {
							c.Incomplete("time budget reached")
							return
						}
						o := bt.Op{Kind: "CheckAndMutate", Table: tblT, Key: []byte("a"), Pred: p, TrueM: tm, FalseM: fm}
						ops := append(append([]bt.Op(nil), base...), o)
						m, cl, at, hh := runSeq(c, eng, b.Setup, ops, false)
						c.Eval(1)
						c.Trace(1)
						c.Trans(1)
						if m != "" {
							t := "setup"
							if at >= 0 {
								t = c12Tag(&ops[at])
							}
							sc := seqCase{Engine: eng, Setup: b.Setup, Ops: ops}
							c.Violate(fmt.Sprintf("C12:%s:%s:%s", eng, cl, t), m+"\n  sequence: "+bt.OpsString(ops), sc, func() string {
								s, _ := replaySeq(c, "C12", sc, c12Tag)
								return s
							})
							continue
						}
						if cl != "ambiguous" {
							c.Outcome(fmt.Sprintf("%s:matched=%s", lastRunResp.Code, pbs(lastRunResp.Matched)))
						}
						if item%997 == 0 {
							c.Sample(map[string]interface{}{"engine": eng, "sequence": bt.OpsString(ops)})
						}
						if cl != "ambiguous" {
							c.State(hh)
						}
					}
				}
			}
		}
		b.Run(c)
		c.Bound(eng+"_history_depth", d)
	}
	c.Bound("predicates", len(preds))
	c.Bound("mutation_list_pairs", len(lists)*len(lists))
	// Wide pass: EVERY chain / interleave / condition of depth 2 over the 21-leaf filter basis of C05 as the predicate (a
	// predicate path that evaluates a composition differently from ReadRows shows only for particular pairs, e.g. a transformer
	// in front of a value test), on every row of the C05 tables and on an absent row, with one distinguishable pair of branches
	b20 := c05Basis20()
	opt := append([]*bt.Filter{nil}, c05Basis8()...)
	var wide []*bt.Filter
	for _, a := range b20 {
		for _, b := range b20 {
			wide = append(wide, &bt.Filter{Kind: "chain", Subs: []*bt.Filter{a, b}}, &bt.Filter{Kind: "interleave", Subs: []*bt.Filter{a, b}})
		}
		for _, t := range opt {
			for _, f := range opt {
				wide = append(wide, &bt.Filter{Kind: "cond", Pred: a, True: t, False: f})
			}
		}
	}
	vals := []*bt.Filter{re("val_re", ""), re("val_re", "x"), re("val_re", "x.*"), {Kind: "val_range", SK: 1, Start: []byte("a")}, {Kind: "val_range", EK: 2, End: []byte("a")}}
	for _, v := range vals {
		wide = append(wide, &bt.Filter{Kind: "chain", Subs: []*bt.Filter{{Kind: "strip"}, v}}, &bt.Filter{Kind: "chain", Subs: []*bt.Filter{v, {Kind: "strip"}}},
			&bt.Filter{Kind: "chain", Subs: []*bt.Filter{re("fam_re", "f"), {Kind: "strip"}, v}},
			&bt.Filter{Kind: "chain", Subs: []*bt.Filter{re("label", "l"), v}},
			&bt.Filter{Kind: "cond", Pred: &bt.Filter{Kind: "chain", Subs: []*bt.Filter{{Kind: "strip"}, v}}, True: &bt.Filter{Kind: "pass", B: true}})
	}
	var witem int64
	for _, eng := range engines {
		for _, setup := range c05Tables() {
			for _, key := range []string{"r1", "r2", "r3", "absent", "n\nk"} {
				for lo := 0; lo < len(wide); lo += 200 {
					witem++
					if !c.Mine(witem) {
						continue
					}
					if c.Expired() {
						c.Incomplete("time budget reached in the wide predicate pass")
						return
					}
					for _, p := range wide[lo:min(lo+200, len(wide))] {
						o := bt.Op{Kind: "CheckAndMutate", Table: tblT, Key: []byte(key), Pred: p,
							TrueM: []bt.Mut{mset("f", "hit", 5000, "t")}, FalseM: []bt.Mut{mset("g", "miss", 5000, "f")}}
						ops := []bt.Op{o}
						m, cl, _, hh := runSeq(c, eng, setup, ops, false)
						c.Eval(1)
						c.Trace(1)
						c.Trans(1)
						if m != "" {
							sc := seqCase{Engine: eng, Setup: setup, Ops: ops}
							c.Violate(fmt.Sprintf("C12:%s:%s:%s", eng, cl, c12Tag(&ops[0])), m+"\n  sequence: "+bt.OpsString(ops), sc, func() string {
								s, _ := replaySeq(c, "C12", sc, c12Tag)
								return s
							})
							continue
						}
						if cl != "ambiguous" {
							c.Outcome(fmt.Sprintf("%s:matched=%s", lastRunResp.Code, pbs(lastRunResp.Matched)))
							c.State(hh)
						}
					}
				}
			}
		}
	}
	c.Bound("wide_predicates", len(wide))
}

func pbs(b *bool) string {
	if b == nil {
		return "-"
	}
	return fmt.Sprint(*b)
}
