package checks

import (
	"encoding/json"
	"fmt"
	"time"

	"verif/bt"
	"verif/fw"
)

// C12 — CheckAndMutateRow applies exactly the branch its predicate selects.

func c12Tag(o *bt.Op) string {
	if o.Kind == "CheckAndMutate" {
		return "CheckAndMutate:" + filterShape(o.Pred) + ":" + c01Tag(&bt.Op{Kind: "MutateRow", Muts: o.TrueM}) + "/" + c01Tag(&bt.Op{Kind: "MutateRow", Muts: o.FalseM})
	}
	return c01Tag(o)
}

func init() {
	fw.Register(&fw.Check{
		ID:    "C12",
		Level: "model_checking",
		Rule: "every row state reached by a BFS over single-mutation histories (dedup on model state + raw dump) x every predicate of a catalogue (none, leaf basis, compositions that strip/limit to zero cells, block-all, erroring ones) x every ordered pair of mutation lists over {[], [set], [delete row], [set, invalid], [invalid], [set g]}; " +
			"each executed as one CheckAndMutateRow on a fresh instance of the real service; oracle: predicate_matched, applied branch and complete table state against the reference model",
		Assumptions: []string{"an invalid predicate or mutation must fail the request with any non-OK status and leave the row unchanged"},
		Run:         runC12,
		Replay:      func(c *fw.Ctx, raw json.RawMessage) (string, string) { return replaySeqRaw(c, "C12", raw, c12Tag) },
		Budget: func(tier string) time.Duration {
			if tier == "thorough" {
				return 15 * time.Minute
			}
			return 60 * time.Second
		},
	})
}

func c12Preds() []*bt.Filter {
	ps := []*bt.Filter{nil}
	ps = append(ps, c05Basis20()...)
	ps = append(ps,
		&bt.Filter{Kind: "chain", Subs: []*bt.Filter{{Kind: "strip"}, fn("row_limit", 0)}},
		&bt.Filter{Kind: "chain", Subs: []*bt.Filter{re("fam_re", "f"), fn("row_offset", 5)}},
		&bt.Filter{Kind: "chain", Subs: []*bt.Filter{re("fam_re", "g"), {Kind: "strip"}}},
		&bt.Filter{Kind: "chain", Subs: []*bt.Filter{fn("col_limit", 0), {Kind: "pass", B: true}}},
		&bt.Filter{Kind: "interleave", Subs: []*bt.Filter{{Kind: "block", B: true}, {Kind: "block", B: true}}},
		&bt.Filter{Kind: "interleave", Subs: []*bt.Filter{{Kind: "block", B: true}, re("fam_re", "g")}},
		&bt.Filter{Kind: "cond", Pred: re("fam_re", "g"), True: &bt.Filter{Kind: "block", B: true}, False: &bt.Filter{Kind: "pass", B: true}},
		&bt.Filter{Kind: "cond", Pred: fn("row_limit", 0), True: &bt.Filter{Kind: "pass", B: true}},
		&bt.Filter{Kind: "cond", Pred: &bt.Filter{Kind: "strip"}, True: fn("row_offset", 1)},
		&bt.Filter{Kind: "pass"}, &bt.Filter{Kind: "block"}, fn("row_offset", -1), fn("col_limit", -1),
		&bt.Filter{Kind: "chain", Subs: []*bt.Filter{{Kind: "pass", B: true}}},
		&bt.Filter{Kind: "ts_range", T0: 1500}, &bt.Filter{Kind: "sample", P: 2},
		&bt.Filter{Kind: "ts_range", T0: 0, T1: 1000}, fn("row_offset", 1), fn("row_offset", 3),
		&bt.Filter{Kind: "val_range", SK: 1, Start: []byte("y")},
		re("key_re", "a"), re("key_re", "b"), re("qual_re", ""), re("val_re", ""),
	)
	return ps
}

func runC12(c *fw.Ctx) {
	core := c01Core()[:15]
	var alpha []bt.Op
	for _, m := range core {
		alpha = append(alpha, bt.Op{Kind: "MutateRow", Table: tblT, Key: []byte("a"), Muts: []bt.Mut{m}})
	}
	// histories that leave a row stored WITHOUT any cell (a family drop empties it; the row object stays in the
	// store), and a family that comes back: "the row has a cell" must be judged on cells, not on stored rows
	alpha = append(alpha,
		bt.Op{Kind: "ModifyFamilies", Table: tblT, Mods: []bt.Mod{{ID: "g", Op: "drop"}}},
		bt.Op{Kind: "ModifyFamilies", Table: tblT, Mods: []bt.Mod{{ID: "g", Op: "drop"}, {ID: "g", Op: "create", GC: &bt.GC{Kind: "maxver", N: 1}}}},
		bt.Op{Kind: "DropRowRange", Table: tblT, Prefix: []byte("a")},
	)
	// a server clock between two milliseconds: server-assigned timestamps (-1) in the selected branch must be
	// accepted exactly as MutateRow accepts them
	alpha = append(alpha, bt.Op{Kind: "SetClock", Clock: 1234567})
	lists := [][]bt.Mut{
		nil,
		{mset("f", "n", 5000, "new")},
		{{Kind: "delrow"}},
		{mset("f", "n", 5000, "new"), mset("nofam", "n", 5000, "new")},
		{mset("f", "n", 1500, "bad")},
		{mset("g", "a", -1, "srv"), mdelcol("f", "a")},
	}
	preds := c12Preds()
	engines := []string{"btree", "mem"}
	depth := 2
	if c.Thorough() {
		engines = []string{"btree", "mem", "disk"}
		depth = 3
	}
	for _, eng := range engines {
		eng := eng
		d := depth
		if eng == "disk" {
			d = 1
		}
		if eng == "mem" && !c.Thorough() {
			d = 1
		}
		var item int64
		b := &btSeq{ID: "C12", Engine: eng, Setup: setupT(), Alphabet: alpha, Depth: d, Dedup: true, Tag: c12Tag}
		seen := map[uint64]bool{}
		b.AtState = func(seq []int, depth int) {
			base := b.ops(seq)
			_, _, _, h := runSeq(c, eng, b.Setup, base, false)
			if seen[h] {
				return
			}
			seen[h] = true
			for _, p := range preds {
				for _, tm := range lists {
					for _, fm := range lists {
						item++
						if depth <= btShardDepth && !c.Mine(item) {
							continue
						}
						if c.Expired() {
							c.Incomplete("time budget reached")
							return
						}
						o := bt.Op{Kind: "CheckAndMutate", Table: tblT, Key: []byte("a"), Pred: p, TrueM: tm, FalseM: fm}
						ops := append(append([]bt.Op(nil), base...), o)
						m, cl, at, hh := runSeq(c, eng, b.Setup, ops, false)
						c.Eval(1)
						c.Trace(1)
						c.Trans(1)
						if m != "" {
							t := "setup"
							if at >= 0 {
								t = c12Tag(&ops[at])
							}
							sc := seqCase{Engine: eng, Setup: b.Setup, Ops: ops}
							c.Violate(fmt.Sprintf("C12:%s:%s:%s", eng, cl, t), m+"\n  sequence: "+bt.OpsString(ops), sc, func() string {
								s, _ := replaySeq(c, "C12", sc, c12Tag)
								return s
							})
							continue
						}
						if cl != "ambiguous" {
							c.Outcome(fmt.Sprintf("%s:matched=%s", lastRunResp.Code, pbs(lastRunResp.Matched)))
						}
						if item%997 == 0 {
							c.Sample(map[string]interface{}{"engine": eng, "sequence": bt.OpsString(ops)})
						}
						if cl != "ambiguous" {
							c.State(hh)
						}
					}
				}
			}
		}
		b.Run(c)
		c.Bound(eng+"_history_depth", d)
	}
	c.Bound("predicates", len(preds))
	c.Bound("mutation_list_pairs", len(lists)*len(lists))
}

func pbs(b *bool) string {
	if b == nil {
		return "-"
	}
	return fmt.Sprint(*b)
}
