package checks

import (
	"encoding/json"
	"fmt"
	"sort"
	"strings"
	"time"

	"verif/fw"
	"verif/gcs"
)

// C09 — GCS: file store persists everything and is equivalent to the memory store.

func c09Tag(o *GOp) string {
	t := o.Kind
	if o.Kind == "Upload" {
		t += ":" + o.Proto
	}
	return t + ":" + o.Name
}

func init() {
	fw.Register(&fw.Check{
		ID:    "C09",
		Level: "model_checking",
		Rule: "explicit-state BFS (dedup on model state) over request programs (create bucket, uploads by every protocol, overwrite, patch, delete, compose, copy, listings with prefix/delimiter/pages, reads, plus external loss of a metadata sidecar and a bare content file dropped into a bucket directory) on file-representable names; " +
			"(a) restart: after EVERY request the emulator is replaced by a fresh instance on the same directory and the complete observable state must equal the reference model of the acknowledged requests; " +
			"(b) differential: the same program runs on the memory store and the file store side by side and every HTTP response (status, JSON body with generations replaced by their rank and timestamps masked, media bodies, paging) must be equal",
		Assumptions: []string{"the file store keeps no volatile state, so a new instance on the same directory IS a kill between requests", "sidecar-less objects: content, size and generation must be served; MD5/content type/metageneration are not constrained"},
		Run:         runC09,
		Replay:      replayC09,
		Budget: func(tier string) time.Duration {
			if tier == "thorough" {
				return 15 * time.Minute
			}
			return 70 * time.Second
		},
	})
}

type c09Case struct {
	Mode string `json:"mode"` // restart | diff
	Ops  []GOp  `json:"ops"`
}

func replayC09(c *fw.Ctx, raw json.RawMessage) (string, string) {
	var cs c09Case
	if err := json.Unmarshal(raw, &cs); err != nil {
		return "bad-replay", err.Error()
	}
	var m, cl string
	if cs.Mode == "restart" || cs.Mode == "clash-retry" {
		m, cl, _ = runRestart(c, cs.Ops, true)
	} else {
		m, cl, _ = runStoreDiff(c, cs.Ops, true)
	}
	if m == "" {
		return "", ""
	}
	return "C09:" + cs.Mode + ":" + cl, m
}

// c09Clash reports whether the request names an object that cannot live in a file system next to
// the objects that exist (in the model) at that moment: the name is a directory of an existing
// object, or an existing object is a directory of the name. The statement restricts the property to
// names representable as files, so such programs are not explored further (this includes merely
// asking for such a name: the memory store says 404, the file store reports the ENOTDIR it gets).
// A name that WAS a directory of objects deleted since is representable and is explored.
func c09Clash(m *gcs.Model, o *GOp) bool {
	type bn struct{ b, n string }
	var names []bn
	switch o.Kind {
	case "Upload", "BareFile", "Patch", "Delete", "Get", "GetMeta", "DropSidecar":
		names = append(names, bn{o.Bucket, o.Name})
	case "Compose":
		names = append(names, bn{o.Bucket, o.Name})
		for _, s := range o.Srcs {
			names = append(names, bn{o.Bucket, s.Name})
		}
	case "Copy":
		names = append(names, bn{o.Bucket, o.Name}, bn{o.DstBucket, o.DstName})
	}
	for _, x := range names {
		for l := range m.Buckets[x.b] {
			if strings.HasPrefix(l, x.n+"/") || strings.HasPrefix(x.n, l+"/") {
				return true
			}
		}
	}
	return false
}

const c09Skip = "skip-unrepresentable"

func runRestart(c *fw.Ctx, ops []GOp, checkAll bool) (string, string, uint64) {
	w := newGCSWorld(c, "file", 1, nil)
	defer w.Close()
	w.restart = true
	for i := range ops {
		if c09Clash(w.model, &ops[i]) {
			// A request that merely NAMES such an object (it cannot exist) is still sent when it creates nothing: how it is
			// answered is not judged (404 from the memory store, an I/O error from the file store), but it must not succeed
			// and it must not touch the objects that do exist (e.g. those below the "directory" it names).
			var rq *gcs.HTTPReq
			switch ops[i].Kind {
			case "Delete":
				x := gcs.ReqDelete(ops[i].Bucket, ops[i].Name, nil)
				rq = &x
			case "Get":
				x := gcs.ReqGetMedia("json", ops[i].Bucket, ops[i].Name)
				rq = &x
			case "Patch":
				x := gcs.ReqPatch(ops[i].Bucket, ops[i].Name, ops[i].PatchBody, nil)
				rq = &x
			}
			if rq == nil {
				return "", c09Skip, 0
			}
			r := w.drv.Do(*rq)
			if r.Panic != "" {
				return fmt.Sprintf("%s on a name that is a directory of existing objects: panic: %s", ops[i].String(), r.Panic), "clash-panic", 0
			}
			if r.Status < 400 {
				return fmt.Sprintf("%s: the object does not exist (its name is a directory of existing objects) but the request is answered %d", ops[i].String(), r.Status), "clash-status", 0
			}
			w.Reopen()
			if m := w.CompareState(); m != "" {
				return "state after " + ops[i].String() + " (which names no existing object): " + m, "clash-state", 0
			}
			return "", c09Skip, 0
		}
		if m, cl := w.Step(&ops[i], checkAll || i == len(ops)-1); m != "" {
			return m, cl + ":" + c09Tag(&ops[i]), 0
		}
	}
	return "", "", w.Hash()
}

// normBody renders a response body with generations replaced by their rank among all generations
// the store has produced so far and timestamps masked.
func normBody(b []byte, gens map[string]int) string {
	var v interface{}
	if len(b) == 0 || json.Unmarshal(b, &v) != nil {
		return string(b)
	}
	var walk func(x interface{}) interface{}
	walk = func(x interface{}) interface{} {
		switch t := x.(type) {
		case map[string]interface{}:
			for k, e := range t {
				switch k {
				case "generation":
					if s, ok := e.(string); ok {
						if _, ok := gens[s]; !ok {
							gens[s] = len(gens) + 1
						}
						t[k] = fmt.Sprintf("gen#%d", gens[s])
						continue
					}
				case "updated", "timeCreated":
					t[k] = "T"
					continue
				case "id", "etag":
					delete(t, k)
					continue
				case "message":
					t[k] = "M" // error texts mention store internals (paths)
					continue
				}
				t[k] = walk(e)
			}
			return t
		case []interface{}:
			for i := range t {
				t[i] = walk(t[i])
			}
			return t
		}
		return x
	}
	out, _ := json.Marshal(walk(v))
	return string(out)
}

func normExchange(e exchange, gens map[string]int) string {
	h := e.Resp.Header
	var hs []string
	for _, k := range []string{"Content-Type", "Range", "X-Http-Status-Code-Override", "X-Goog-Metageneration", "Content-Encoding", "Content-Disposition"} {
		if v := h.Get(k); v != "" {
			hs = append(hs, k+"="+v)
		}
	}
	if g := h.Get("X-Goog-Generation"); g != "" {
		if _, ok := gens[g]; !ok {
			gens[g] = len(gens) + 1
		}
		hs = append(hs, fmt.Sprintf("X-Goog-Generation=gen#%d", gens[g]))
	}
	sort.Strings(hs)
	return fmt.Sprintf("%d {%s} %s", e.Resp.Status, strings.Join(hs, ";"), normBody(e.Resp.Body, gens))
}

func runStoreDiff(c *fw.Ctx, ops []GOp, checkAll bool) (string, string, uint64) {
	wm := newGCSWorld(c, "mem", 1, nil)
	defer wm.Close()
	wf := newGCSWorld(c, "file", 1, nil)
	defer wf.Close()
	wm.skipState, wf.skipState = true, true
	gm, gf := map[string]int{}, map[string]int{}
	for i := range ops {
		if c09Clash(wm.model, &ops[i]) {
			return "", c09Skip, 0
		}
		o1, o2 := ops[i], ops[i]
		m1, _ := wm.Step(&o1, false)
		exm := append([]exchange(nil), wm.exch...)
		m2, _ := wf.Step(&o2, false)
		exf := append([]exchange(nil), wf.exch...)
		if !(checkAll || i == len(ops)-1) {
			// keep the rank maps in step
			for j := range exm {
				normExchange(exm[j], gm)
			}
			for j := range exf {
				normExchange(exf[j], gf)
			}
			continue
		}
		// the two stores must answer alike, whatever the model thinks of the answers
		if len(exm) != len(exf) {
			return fmt.Sprintf("%s: memory store needed %d HTTP exchanges, file store %d\n  mem: %s\n  file: %s", ops[i].String(), len(exm), len(exf), m1, m2), "exchanges:" + c09Tag(&ops[i]), 0
		}
		for j := range exm {
			a, b := normExchange(exm[j], gm), normExchange(exf[j], gf)
			if a != b {
				return fmt.Sprintf("%s: response %d differs between the stores\n   request: %s\n   mem : %s\n   file: %s", ops[i].String(), j, exm[j].Req.String(), a, b), "response:" + c09Tag(&ops[i]), 0
			}
		}
	}
	return "", "", wm.Hash()
}

func runC09(c *fw.Ctx) {
	ct := gcs.ObjMeta{ContentType: "text/plain"}
	P := func(n, body string) GOp { return GOp{Kind: "Patch", Bucket: "b", Name: n, PatchBody: []byte(body)} }
	L := func(prefix, delim, mx string) GOp {
		return GOp{Kind: "List", Bucket: "b", Prefix: prefix, Delim: delim, MaxRes: mx}
	}
	alpha := []GOp{
		{Kind: "CreateBucket", Bucket: "b"},
		{Kind: "Upload", Proto: "media", Bucket: "b", Name: "a.txt", Data: []byte("A"), Meta: ct},
		{Kind: "Upload", Proto: "multipart", Bucket: "b", Name: "d/x", Data: []byte("DX"), Meta: gcs.ObjMeta{ContentType: "text/dx", Metadata: map[string]string{"k": "v"}}},
		{Kind: "Upload", Proto: "resumable", Bucket: "b", Name: "d/sub/y", Data: []byte("deep"), Meta: gcs.ObjMeta{ContentType: "text/y", CacheControl: "no-cache"}},
		{Kind: "Upload", Proto: "media", Bucket: "b", Name: "a.txt", Data: []byte("A-overwritten"), Meta: gcs.ObjMeta{ContentType: "text/2"}},
		{Kind: "Upload", Proto: "media", Bucket: "b", Name: "d-e", Data: []byte{}, Meta: ct},
		// a name that extends another object's name by a suffix a store might use for its own scratch files
		{Kind: "Upload", Proto: "multipart", Bucket: "b", Name: "a.txt.tmp", Data: []byte("not a temp file"), Meta: gcs.ObjMeta{ContentType: "text/tmp", Metadata: map[string]string{"own": "meta"}}},
		P("a.txt.tmp", `{"metadata":{"t":"1"}}`),
		// a name that is, or was, a directory of other objects (only explored while no object lives below it)
		{Kind: "Upload", Proto: "media", Bucket: "b", Name: "d", Data: []byte("D"), Meta: ct},
		{Kind: "Upload", Proto: "multipart", Bucket: "b", Name: "d/sub", Data: []byte("DS"), Meta: ct},
		{Kind: "Delete", Bucket: "b", Name: "d"},
		P("a.txt", `{"metadata":{"p":"1"},"contentType":"text/patched"}`),
		P("d/x", `{"metadata":{"k":"w","n":"2"}}`),
		{Kind: "Delete", Bucket: "b", Name: "a.txt"},
		{Kind: "Delete", Bucket: "b", Name: "d/x"},
		{Kind: "Delete", Bucket: "b", Name: "d/sub/y"},
		{Kind: "Compose", Bucket: "b", Name: "c", Srcs: []GSrc{{Name: "a.txt"}, {Name: "d/x"}}, Meta: gcs.ObjMeta{ContentType: "text/c"}},
		{Kind: "Copy", Bucket: "b", Name: "d/x", DstBucket: "b", DstName: "copy/of/x"},
		{Kind: "Copy", Bucket: "b", Name: "a.txt", DstBucket: "b2", DstName: "a.txt"},
		{Kind: "Copy", Bucket: "b", Name: "a.txt", DstBucket: "b", DstName: "a.txt"}, // onto itself
		{Kind: "Copy", Bucket: "b", Name: "d/x", DstBucket: "b", DstName: "a.txt", Meta: gcs.ObjMeta{ContentType: "text/rewritten"}},
		{Kind: "CreateBucket", Bucket: "b2"},
		// the bucket resource itself: of a bucket that exists, that may not exist yet, that never exists
		{Kind: "GetBucket", Bucket: "b"}, {Kind: "GetBucket", Bucket: "b2"}, {Kind: "GetBucket", Bucket: "nobucket"},
		// the bucket deleted with everything in it; the requests above then create it again (explicitly, or by writing)
		{Kind: "DeleteBucket", Bucket: "b"},
		L("", "", "1"), L("", "/", "2"), L("d", "/", "1"), L("d/", "", ""), L("a", ".", "1000"),
		{Kind: "Get", Bucket: "b", Name: "d/x", Form: "public"},
		{Kind: "GetMeta", Bucket: "b", Name: "a.txt"},
		{Kind: "Delete", Bucket: "b", Name: "a.txt", Conds: map[string]string{"ifGenerationMatch": "other"}},
	}
	restartOnly := []GOp{
		{Kind: "DropSidecar", Bucket: "b", Name: "a.txt"},
		{Kind: "DropSidecar", Bucket: "b", Name: "d/x"},
		{Kind: "BareFile", Bucket: "b", Name: "legacy/file.bin", Data: []byte("legacy-content")},
	}
	depth := 4
	if c.Thorough() {
		depth = 6
	}
	for _, mode := range []string{"restart", "diff"} {
		al := alpha
		if mode == "restart" {
			al = append(append([]GOp(nil), alpha...), restartOnly...)
		}
		frontier := [][]int{{}}
		seen := map[uint64]bool{}
		completed := 0
	levels:
		for d := 1; d <= depth; d++ {
			var next [][]int
			rec := d > btShardDepth || c.Shard == 0
			for _, seq := range frontier {
				for k := range al {
					if c.Expired() {
						c.Incomplete(fmt.Sprintf("time budget reached at depth %d (%s)", d, mode))
						break levels
					}
					ns := append(append([]int(nil), seq...), k)
					var ops []GOp
					for _, x := range ns {
						ops = append(ops, al[x])
					}
					var m, cl string
					var h uint64
					if mode == "restart" {
						m, cl, h = runRestart(c, ops, false)
					} else {
						m, cl, h = runStoreDiff(c, ops, false)
					}
					if rec {
						c.Eval(1)
						c.Trans(1)
						c.Trace(1)
					}
					if cl == c09Skip {
						if rec {
							c.Outcome("skipped:unrepresentable-name-set")
						}
						continue
					}
					if m != "" {
						if rec {
							cs := c09Case{Mode: mode, Ops: ops}
							c.Violate("C09:"+mode+":"+cl, m+"\n  program: "+GOpsString(ops), cs, func() string {
								b, _ := json.Marshal(cs)
								s, _ := replayC09(c, b)
								return s
							})
							c.Outcome("violation:" + mode)
						}
						continue
					}
					if rec {
						c.State(fw.Hash(mode, fmt.Sprint(h), al[k].String()))
						c.Outcome(mode + ":" + al[k].Kind)
						if len(ns) == 2 && k%7 == 0 {
							c.Sample(map[string]interface{}{"mode": mode, "program": GOpsString(ops)})
						}
					}
					if seen[h] {
						continue
					}
					seen[h] = true
					if d < depth {
						next = append(next, ns)
					}
				}
			}
			if d == btShardDepth && c.N > 1 {
				var mine [][]int
				for i, s := range next {
					if i%c.N == c.Shard {
						mine = append(mine, s)
					}
				}
				next = mine
			}
			frontier = next
			completed = d
		}
		c.Bound(mode+"_depth_completed", completed)
	}
	// a write that fails because its name clashes with an existing object, the blocker removed, the write retried:
	// both directions of the clash, every protocol, the retry as a new request and as the re-sent final chunk of
	// the same resumable session; restart after every step
	nclash := 0
	for _, pair := range [][2]string{{"docs", "docs/x"}, {"docs/x", "docs"}, {"a/b", "a/b/c/d"}, {"a/b/c/d", "a/b"}} {
		for _, proto := range []string{"media", "multipart", "resumable", "session"} {
			for _, bystander := range []bool{false, true} {
				nclash++
				if !c.Mine(int64(nclash)) {
					continue
				}
				ops := []GOp{{Kind: "CreateBucket", Bucket: "b"},
					{Kind: "Upload", Proto: "multipart", Bucket: "b", Name: pair[1], Data: []byte("blocker"), Meta: gcs.ObjMeta{ContentType: "text/blocker", Metadata: map[string]string{"b": "1"}}}}
				if bystander {
					ops = append(ops, GOp{Kind: "Upload", Proto: "media", Bucket: "b", Name: "docs.txt", Data: []byte("bystander"), Meta: ct})
				}
				ops = append(ops, GOp{Kind: "ClashRetry", Proto: proto, Bucket: "b", Name: pair[0], Name2: pair[1], Data: []byte("retried-content"), Meta: gcs.ObjMeta{ContentType: "text/retried", Metadata: map[string]string{"r": "1"}}},
					GOp{Kind: "List", Bucket: "b"})
				m, cl, _ := runRestart(c, ops, true)
				c.Eval(1)
				c.Trans(1)
				c.Trace(1)
				if m != "" {
					cs := c09Case{Mode: "clash-retry", Ops: ops}
					c.Violate("C09:clash-retry:"+cl, m+"\n  program: "+GOpsString(ops), cs, func() string {
						b, _ := json.Marshal(cs)
						s, _ := replayC09(c, b)
						return s
					})
					c.Outcome("violation:clash-retry")
					continue
				}
				c.State(fw.Hash("clash-retry", GOpsString(ops)))
				c.Outcome("clash-retry:" + proto)
			}
		}
	}
	c.Bound("clash_retry_programs", nclash)
	c.Bound("alphabet", len(alpha))
}
