package checks

import (
	"fmt"
	"os"
	"path/filepath"
	"strings"

	"verif/bt"
	"verif/fw"
	"verif/shim/vtime"
)

// btWorld couples one real server instance with the reference model.
type btWorld struct {
	drv   *bt.Driver
	model *bt.Model
	hints *bt.Hints
	dir   string
	// stateCheck: after every checked step read every table completely and compare with the model.
	stateCheck bool
	famCache   map[string][]string
	ambiguous  int64
	last       bt.Resp // the implementation's response to the last step
	desync     bool
}

var btDirSeq int

func newBTWorld(c *fw.Ctx, engine string) *btWorld {
	w := &btWorld{model: bt.NewModel(), stateCheck: true}
	if engine == "disk" {
		btDirSeq++
		w.dir = filepath.Join(c.Scratch, fmt.Sprintf("bt%d", btDirSeq))
		_ = os.MkdirAll(w.dir, 0o777)
	}
	vtime.SetVirtual(1_700_000_000_000_000_000, 1)
	w.drv = bt.NewDriver(engine, w.dir)
	w.famCache = map[string][]string{}
	w.hints = &bt.Hints{FamOrder: func(table, key string) []string {
		k := table + "\x00" + key
		if fo, ok := w.famCache[k]; ok {
			return fo
		}
		fo := w.drv.FamOrder(table, key)
		w.famCache[k] = fo
		return fo
	}}
	return w
}

func (w *btWorld) Close() {
	w.drv.Close()
	if w.dir != "" {
		_ = os.RemoveAll(w.dir)
	}
}

// Step applies one request to the model and to the implementation. With check it compares the
// response and then the complete observable state; it returns a description of the first
// disagreement ("" if none) and a coarse class for violation signatures.
func (w *btWorld) Step(o *bt.Op, check bool) (string, string) {
	want := w.model.Apply(o, w.hints, vtime.Cur())
	got := w.drv.Apply(o)
	w.last = got
	if o.Kind != "ReadRows" && o.Kind != "SampleRowKeys" && len(w.famCache) > 0 {
		w.famCache = map[string][]string{}
	}
	if !check {
		if want.Ambiguous != "" && o.Kind != "ReadRows" && o.Kind != "SampleRowKeys" {
			w.desync = true
		}
		return "", ""
	}
	if got.Panic != "" {
		return "panic in " + o.Kind + ": " + got.Panic, "panic"
	}
	if want.Ambiguous != "" {
		w.ambiguous++
		if o.Kind != "ReadRows" && o.Kind != "SampleRowKeys" {
			// the model cannot follow a state-changing request whose answer the documented
			// semantics leave open: the case is skipped and the world abandoned
			w.desync = true
			return "", "ambiguous"
		}
	}
	if m := bt.Compare(got, want); m != "" {
		return "response of " + o.String() + ": " + m, "resp:" + firstWord(m)
	}
	if w.stateCheck {
		if m := w.CompareState(); m != "" {
			return "state after " + o.String() + ": " + m, "state"
		}
	}
	return "", ""
}

func firstWord(s string) string {
	if i := strings.IndexAny(s, ": "); i > 0 {
		return s[:i]
	}
	return s
}

// CompareState reads every table of the model completely (unfiltered) from the implementation
// and compares cell for cell; it also compares the table registry.
func (w *btWorld) CompareState() string {
	parents := map[string]bool{}
	for name := range w.model.Tables {
		parents[name[:strings.LastIndex(name, "/tables/")]] = true
		got := w.drv.Apply(&bt.Op{Kind: "ReadRows", Table: name})
		if got.Panic != "" {
			return "panic in full read: " + got.Panic
		}
		if got.Malformed != "" {
			return "malformed chunk stream in full read: " + got.Malformed
		}
		if got.Code != "OK" {
			return fmt.Sprintf("full read of %s: %s %s", name, got.Code, got.Msg)
		}
		if g, wn := bt.RowsString(got.Rows), bt.RowsString(w.model.TableRows(name)); g != wn {
			return fmt.Sprintf("table %s:\n   got  %s\n   want %s", name, g, wn)
		}
		// the keys the table reports as stored (SampleRowKeys with every sampling decision answered "yes") are
		// keys of rows that have cells: a row emptied by deletes, a dropped family or a GC pass is gone
		wantRows := w.model.TableRows(name)
		coins := make([]bool, len(wantRows)+8)
		for i := range coins {
			coins[i] = true
		}
		gs := w.drv.Apply(&bt.Op{Kind: "SampleRowKeys", Table: name, Coins: coins})
		if gs.Panic != "" {
			return "panic in SampleRowKeys: " + gs.Panic
		}
		if gs.Code != "OK" {
			return fmt.Sprintf("SampleRowKeys of %s: %s %s", name, gs.Code, gs.Msg)
		}
		var wk []string
		for _, r := range wantRows {
			wk = append(wk, string(r.Key))
		}
		// (what the statement of C03 says about samples, against the rows that exist now: an ascending subsequence
		// of their keys that ends with the last one - not more, so that another sampling strategy is not an alarm)
		if bad := checkSamples(wk, gs.Samples); bad != "" {
			return fmt.Sprintf("table %s: SampleRowKeys (every sampling decision answered yes) reports %v, the rows with cells are %q: %s", name, gs.Samples, wk, bad)
		}
		gt := w.drv.Apply(&bt.Op{Kind: "GetTable", Table: name})
		wt := w.model.Apply(&bt.Op{Kind: "GetTable", Table: name}, nil, 0)
		if m := bt.Compare(gt, wt); m != "" {
			return "GetTable " + name + ": " + m
		}
	}
	for _, t := range w.drv.S.VerifDump() {
		if w.model.Tables[t.Name] == nil {
			return "implementation has table " + t.Name + " that should not exist"
		}
	}
	for p := range parents {
		gl := w.drv.Apply(&bt.Op{Kind: "ListTables", Parent: p})
		wl := w.model.Apply(&bt.Op{Kind: "ListTables", Parent: p}, nil, 0)
		if m := bt.Compare(gl, wl); m != "" {
			return "ListTables " + p + ": " + m
		}
	}
	return ""
}

func (w *btWorld) Hash() uint64 { return fw.Hash(w.model.StateString(), w.drv.Dump()) }

// ---- generic bounded-exhaustive sequence exploration ------------------------------------------

const btShardDepth = 2

type btSeq struct {
	ID       string
	Engine   string
	Setup    []bt.Op
	Alphabet []bt.Op
	Depth    int
	Dedup    bool
	// AtState, if set, is called for every distinct state reached (with the sequence reaching it)
	// after BFS level <= AtDepth; used for "from every reachable state" product passes.
	AtState func(seq []int, depth int)
	// Tag gives the trigger tag for violation signatures.
	Tag func(o *bt.Op) string
}

type seqCase struct {
	Engine string  `json:"engine"`
	Setup  []bt.Op `json:"setup"`
	Ops    []bt.Op `json:"ops"`
	// ReadsOnly: the ops are read-only requests of one batch; the replay sends them as the batch did, without a
	// complete state comparison (which is a series of reads of its own) in between
	ReadsOnly bool `json:"reads_only,omitempty"`
}

// runSeqNoState: see seqCase.ReadsOnly.
var runSeqNoState bool

// lastRunResp is the implementation's response to the last request of the last successful runSeq.
var lastRunResp bt.Resp

func defaultTag(o *bt.Op) string { return o.Kind }

// runSeq executes setup + ops on a fresh instance, checking only the last op (all earlier ones
// were checked when they were the last op of a shorter sequence), or every op when checkAll.
func runSeq(c *fw.Ctx, engine string, setup, ops []bt.Op, checkAll bool) (mismatch, class string, at int, h uint64) {
	w := newBTWorld(c, engine)
	defer w.Close()
	for i := range setup {
		if m, cl := w.Step(&setup[i], true); m != "" {
			return "setup: " + m, cl, -1, 0
		}
	}
	if runSeqNoState {
		w.stateCheck = false
	}
	for i := range ops {
		m, cl := w.Step(&ops[i], checkAll || i == len(ops)-1)
		if m != "" {
			return m, cl, i, 0
		}
		if w.desync {
			c.Note("ambiguous_skipped", 1)
			return "", "ambiguous", i, 0
		}
	}
	lastRunResp = w.last
	return "", "", -1, w.Hash()
}

func replaySeq(c *fw.Ctx, id string, sc seqCase, tag func(*bt.Op) string) (string, string) {
	runSeqNoState = sc.ReadsOnly
	// a read-only batch case is about its LAST request: the earlier reads are only sent (each was judged, and reported
	// under its own signature if it failed, when it was the last request of a shorter case)
	m, cl, at, _ := runSeq(c, sc.Engine, sc.Setup, sc.Ops, !sc.ReadsOnly)
	runSeqNoState = false
	if m == "" {
		return "", ""
	}
	if tag == nil {
		tag = defaultTag
	}
	t := "setup"
	if at >= 0 {
		t = tag(&sc.Ops[at])
	}
	return fmt.Sprintf("%s:%s:%s:%s", id, sc.Engine, cl, t), m
}

// multiStepOp: a request that applies several steps in memory before it can be rejected.
func multiStepOp(o *bt.Op) bool {
	switch o.Kind {
	case "MutateRow":
		return len(o.Muts) >= 2
	case "MutateRows":
		return true
	case "CheckAndMutate":
		return len(o.TrueM)+len(o.FalseM) >= 2
	case "RMW":
		return len(o.Rules) >= 2
	case "ModifyFamilies":
		return len(o.Mods) >= 2
	}
	return false
}

// destructiveOp: requests that remove rows or whole tables wholesale.
func destructiveOp(o *bt.Op) bool {
	switch o.Kind {
	case "DropRowRange", "DeleteTable", "GC":
		return true
	case "ModifyFamilies":
		for _, m := range o.Mods {
			if m.Op == "drop" {
				return true
			}
		}
	}
	return false
}

func (b *btSeq) ops(seq []int) []bt.Op {
	out := make([]bt.Op, len(seq))
	for i, k := range seq {
		out[i] = b.Alphabet[k]
	}
	return out
}

// Run explores every sequence over the alphabet up to Depth (level-synchronous BFS; with Dedup,
// sequences reaching an already seen (model state, raw implementation dump) are not extended).
// Shards split the space by the first operation.
func (b *btSeq) Run(c *fw.Ctx) {
	tag := b.Tag
	if tag == nil {
		tag = defaultTag
	}
	frontier := [][]int{{}}
	// Levels up to shardDepth are executed by every shard (they are tiny) but recorded only by
	// shard 0; the frontier after shardDepth is dealt round-robin to the shards.
	const shardDepth = btShardDepth
	record := func(depth int) bool { return depth > shardDepth || c.Shard == 0 }
	if b.AtState != nil {
		b.AtState(nil, 0) // levels <= btShardDepth: called in every shard; the callee splits its work with c.Mine
	}
	seen := map[uint64]bool{}
	completed := 0
	for depth := 1; depth <= b.Depth; depth++ {
		var next [][]int
		rec := record(depth)
		for _, seq := range frontier {
			for k := range b.Alphabet {
				if c.Expired() {
					c.Incomplete(fmt.Sprintf("time budget reached at depth %d (depth %d complete)", depth, completed))
					c.Bound(b.Engine+"_depth_completed", completed)
					return
				}
				ns := append(append([]int(nil), seq...), k)
				ops := b.ops(ns)
				m, cl, at, h := runSeq(c, b.Engine, b.Setup, ops, false)
				if rec {
					c.Eval(1)
					c.Trace(1)
					c.Trans(1)
				}
				if m != "" {
					if rec {
						t := "setup"
						if at >= 0 {
							t = tag(&ops[at])
						}
						sig := fmt.Sprintf("%s:%s:%s:%s", b.ID, b.Engine, cl, t)
						sc := seqCase{Engine: b.Engine, Setup: b.Setup, Ops: ops}
						c.Violate(sig, m+"\n  sequence: "+bt.OpsString(ops), sc, func() string {
							s, _ := replaySeq(c, b.ID, sc, tag)
							return s
						})
						c.Outcome("violation:" + cl)
					}
					continue // do not extend a sequence whose last step already disagreed
				}
				if cl == "ambiguous" {
					continue
				}
				if rec {
					c.Outcome("ok:" + b.Alphabet[k].Kind)
					c.State(h)
				}
				if b.Dedup {
					// two histories are merged only if model state and raw dump agree AND neither ended in a request
					// that destroys rows wholesale: state the dump cannot show (an engine-level cache, a handle to a
					// replaced database) is typically left behind by exactly those, and it would be merged away
					dk := h
					if destructiveOp(&b.Alphabet[k]) || (lastRunResp.Code != "OK" && lastRunResp.Code != "" && multiStepOp(&b.Alphabet[k])) {
						// ... or in a REJECTED multi-step request: what it applied in memory before it failed must be gone, and only a
						// later request on the same row can show that it is not
						dk = fw.Hash(fmt.Sprint(h), "after", b.Alphabet[k].String(), bt.OpsString(ops[max(0, len(ops)-2):len(ops)-1]))
					}
					if seen[dk] {
						continue
					}
					seen[dk] = true
				}
				if rec && len(ns) <= 2 {
					c.Sample(map[string]interface{}{"engine": b.Engine, "sequence": bt.OpsString(ops)})
				}
				if b.AtState != nil {
					b.AtState(ns, depth)
				}
				if depth < b.Depth {
					next = append(next, ns)
				}
			}
		}
		if depth == shardDepth && c.N > 1 {
			var mine [][]int
			for i, s := range next {
				if i%c.N == c.Shard {
					mine = append(mine, s)
				}
			}
			next = mine
		}
		frontier = next
		completed = depth
	}
	c.Bound(b.Engine+"_depth_completed", completed)
}
