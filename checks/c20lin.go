package checks

import (
	"fmt"

	"verif/bt"
	"verif/fw"
)

// C20 (c): request mixes that involve the table registry and the schema, judged by linearizability of
// the whole service against the reference model (the harness of C06 with closing observations of the
// registry): a create/delete/clear that races writes must leave exactly the state some serial order
// of the acknowledged requests explains - nothing acknowledged is lost, nothing deleted comes back.
func runC20Lin(c *fw.Ctx, item *int64) {
	mv := func(n int32) *bt.GC { return &bt.GC{Kind: "maxver", N: n} }
	createU := bt.Op{Kind: "CreateTable", Parent: parentI, TableID: "u", Fams: map[string]*bt.GC{"f": nil}}
	createT := bt.Op{Kind: "CreateTable", Parent: parentI, TableID: "t", Fams: map[string]*bt.GC{"f": nil, "g": nil}}
	put := func(t, k, fam, v string) bt.Op {
		return bt.Op{Kind: "MutateRow", Table: t, Key: []byte(k), Muts: []bt.Mut{mset(fam, "c", 1000, v)}}
	}
	read := func(t string) bt.Op { return bt.Op{Kind: "ReadRows", Table: t} }
	mod := func(mods ...bt.Mod) bt.Op { return bt.Op{Kind: "ModifyFamilies", Table: tblT, Mods: mods} }
	closing := []bt.Op{{Kind: "ListTables", Parent: parentI}, {Kind: "GetTable", Table: tblT}, {Kind: "GetTable", Table: tblU}, read(tblU)}
	pre := []bt.Op{put(tblT, "a", "f", "pre"), put(tblT, "b", "g", "pre")}
	var scen []c06Param
	for _, eng := range []string{"mem", "btree"} {
		scen = append(scen,
			c06Param{Engine: eng, Pre: pre, Close: closing, Threads: [][]bt.Op{{createU, put(tblU, "a", "f", "1")}, {createU}}},
			c06Param{Engine: eng, Pre: pre, Close: closing, Threads: [][]bt.Op{{createU}, {createU, put(tblU, "b", "f", "2")}, {{Kind: "ListTables", Parent: parentI}}}},
			c06Param{Engine: eng, Pre: pre, Close: closing, Threads: [][]bt.Op{{{Kind: "DeleteTable", Table: tblT}}, {put(tblT, "a", "f", "w"), read(tblT)}}},
			c06Param{Engine: eng, Pre: pre, Close: closing, Threads: [][]bt.Op{{{Kind: "DeleteTable", Table: tblT}, createT}, {put(tblT, "c", "f", "w")}}},
			c06Param{Engine: eng, Pre: pre, Close: closing, Threads: [][]bt.Op{{createU, {Kind: "DeleteTable", Table: tblU}}, {createU, put(tblU, "a", "f", "1")}}},
			c06Param{Engine: eng, Pre: pre, Close: closing, Threads: [][]bt.Op{{mod(bt.Mod{ID: "g", Op: "drop"})}, {put(tblT, "a", "g", "w"), read(tblT)}}},
			c06Param{Engine: eng, Pre: pre, Close: closing, Threads: [][]bt.Op{{mod(bt.Mod{ID: "g", Op: "drop"}, bt.Mod{ID: "g", Op: "create", GC: mv(1)})}, {put(tblT, "b", "g", "w")}}},
			// a family disappears (and comes back) under a read-modify-write / check-and-mutate that names it
			c06Param{Engine: eng, Pre: pre, Close: closing, Threads: [][]bt.Op{{mod(bt.Mod{ID: "g", Op: "drop"})}, {{Kind: "RMW", Table: tblT, Key: []byte("b"), Rules: []bt.Rule{{Fam: "g", Qual: []byte("c"), Append: []byte("+")}}}}}},
			c06Param{Engine: eng, Pre: pre, Close: closing, Threads: [][]bt.Op{{mod(bt.Mod{ID: "g", Op: "drop"}), mod(bt.Mod{ID: "g", Op: "create"})}, {{Kind: "RMW", Table: tblT, Key: []byte("b"), Rules: []bt.Rule{{Fam: "f", Qual: []byte("n"), IsInc: true, Inc: 1}, {Fam: "g", Qual: []byte("n"), IsInc: true, Inc: 1}}}}}},
			c06Param{Engine: eng, Pre: pre, Close: closing, Threads: [][]bt.Op{{mod(bt.Mod{ID: "g", Op: "drop"})}, {{Kind: "CheckAndMutate", Table: tblT, Key: []byte("b"), Pred: re("fam_re", "g"), TrueM: []bt.Mut{mset("g", "t", 1000, "T")}, FalseM: []bt.Mut{mset("f", "t", 1000, "F")}}}}},
			c06Param{Engine: eng, Pre: pre, Close: closing, Threads: [][]bt.Op{{{Kind: "DropRowRange", Table: tblT, All: true}}, {put(tblT, "a", "f", "w"), read(tblT)}}},
			c06Param{Engine: eng, Pre: pre, Close: closing, Threads: [][]bt.Op{{{Kind: "DropRowRange", Table: tblT, Prefix: []byte("a")}}, {put(tblT, "ab", "f", "w")}, {put(tblT, "a", "g", "w")}}},
			c06Param{Engine: eng, Pre: pre, Close: closing, Threads: [][]bt.Op{{{Kind: "GetTable", Table: tblT}}, {mod(bt.Mod{ID: "h", Op: "create", GC: mv(2)})}, {mod(bt.Mod{ID: "g", Op: "drop"})}}},
		)
	}
	// the emulator is stopped (Server.Close) while a request is in flight: whatever the order, both finish (btree engine:
	// its rows survive Close, so the closing observations still see the outcome of the request)
	shut := bt.Op{Kind: "Shutdown"}
	for _, th := range [][][]bt.Op{
		{{shut}, {mod(bt.Mod{ID: "g", Op: "drop"})}},
		{{shut}, {mod(bt.Mod{ID: "h", Op: "create", GC: mv(2)})}, {read(tblT)}},
		{{shut}, {put(tblT, "a", "f", "w"), read(tblT)}},
		{{shut}, {createU, put(tblU, "a", "f", "1")}},
		{{shut}, {{Kind: "DeleteTable", Table: tblT}}},
		{{shut}, {{Kind: "DropRowRange", Table: tblT, All: true}}},
	} {
		scen = append(scen, c06Param{Engine: "btree", Pre: pre, Close: closing, Threads: th})
	}
	// the same kind of mix on the disk engine, followed by a stop and a start: what was served at the end must be what
	// is persisted (a schema change that writes the definition of a table another request has just deleted, a delete
	// that removes the definition a re-create has just written)
	updF := mod(bt.Mod{ID: "f", Op: "update", GC: mv(3)})
	for _, th := range [][][]bt.Op{
		{{{Kind: "DeleteTable", Table: tblT}}, {updF}},
		{{{Kind: "DeleteTable", Table: tblT}}, {mod(bt.Mod{ID: "g", Op: "drop"})}},
		{{{Kind: "DeleteTable", Table: tblT}, createT}, {updF}},
		{{{Kind: "DeleteTable", Table: tblT}, createT}, {{Kind: "DeleteTable", Table: tblT}}},
		{{createU}, {createU, {Kind: "DeleteTable", Table: tblU}}},
	} {
		scen = append(scen, c06Param{Engine: "disk", Pre: pre, Close: closing, Restart: true, Threads: th})
	}
	for _, p := range scen {
		*item++
		if !c.Mine(*item) {
			continue
		}
		if c.Expired() {
			c.Incomplete("time budget reached before all admin/data mixes were explored")
			break
		}
		sc := c06Scenario(c, p)
		sc.Name = "lin:" + sc.Name
		if !selfCheckDeterminism(c, "C20", sc) {
			return
		}
		bound := 2
		if p.Restart {
			bound = 1 // each execution creates databases on disk and restarts on them; thorough: 2
		}
		if c.Thorough() {
			bound = 3
			if p.Restart {
				bound = 2
			}
		}
		n := exploreScenario(c, "C20", sc, bound, 0)
		c.Note("lin_execs:"+sc.Name, n)
	}
	c.Bound("admin_data_mixes", fmt.Sprint(len(scen)))
	// scans over a table that no longer fits leveldb's memtable (10 MB: rows in table files) against requests that clear
	// or shrink it while the scan has given up the table lock; no race detection needed for this (a scan must not crash)
	huge := []string{"DropAll", "DropPrefix"}
	if c.Thorough() {
		huge = append(huge, "GC", "DeleteTable", "ModifyDrop")
	}
	seen := 0
	for _, o := range huge {
		*item++
		if !c.Mine(*item) {
			continue
		}
		if c.Expired() {
			c.Incomplete("time budget reached before the large-table scenarios were explored")
			break
		}
		p := c20Param{Side: "bt", Store: "mem", Fix: "huge", Threads: []string{"ReadBig", o}}
		n := exploreRace(c, c20Scenario(c, p), 1, &seen)
		c.Note("large_table_execs", n)
	}
}
