package checks

import (
	"bufio"
	"bytes"
	"context"
	"encoding/json"
	"errors"
	"fmt"
	"io"
	"math"
	"mime"
	"mime/multipart"
	"net/http"
	"net/http/httptest"
	"net/url"
	"os"
	"path/filepath"
	"sort"
	"strings"

	btapb "cloud.google.com/go/bigtable/admin/apiv2/adminpb"
	btpb "cloud.google.com/go/bigtable/apiv2/bigtablepb"
	"github.com/fullstorydev/emulators/bigtable/bttest"
	"google.golang.org/grpc/status"
	"google.golang.org/protobuf/encoding/prototext"
	"google.golang.org/protobuf/proto"
	"google.golang.org/protobuf/reflect/protoreflect"

	"verif/bt"
	"verif/fw"
	"verif/gcs"
	"verif/sched"
	"verif/shim/vos"
	"verif/shim/vtime"
)

// C20, input half: perturbation catalogues. Every case runs as a ONE-thread controlled execution
// (so a lock left held shows up as "no enabled thread" on the follow-up probe, and a double
// unlock as a recoverable panic instead of a fatal error that would kill the worker).

// ---- generic protobuf perturbation -----------------------------------------------------------------

type pstep struct {
	fd  protoreflect.FieldDescriptor
	idx int // list index, -1 = singular
}

type pert struct {
	Name  string
	path  []pstep
	apply func(m protoreflect.Message)
}

func scalarVariants(fd protoreflect.FieldDescriptor) []protoreflect.Value {
	switch fd.Kind() {
	case protoreflect.Int32Kind, protoreflect.Sint32Kind, protoreflect.Sfixed32Kind:
		return []protoreflect.Value{protoreflect.ValueOfInt32(-1), protoreflect.ValueOfInt32(math.MaxInt32), protoreflect.ValueOfInt32(math.MinInt32), protoreflect.ValueOfInt32(0)}
	case protoreflect.Int64Kind, protoreflect.Sint64Kind, protoreflect.Sfixed64Kind:
		return []protoreflect.Value{protoreflect.ValueOfInt64(-1), protoreflect.ValueOfInt64(math.MaxInt64), protoreflect.ValueOfInt64(math.MinInt64), protoreflect.ValueOfInt64(0), protoreflect.ValueOfInt64(1500)}
	case protoreflect.Uint32Kind, protoreflect.Fixed32Kind:
		return []protoreflect.Value{protoreflect.ValueOfUint32(math.MaxUint32), protoreflect.ValueOfUint32(0)}
	case protoreflect.Uint64Kind, protoreflect.Fixed64Kind:
		return []protoreflect.Value{protoreflect.ValueOfUint64(math.MaxUint64), protoreflect.ValueOfUint64(0)}
	case protoreflect.DoubleKind:
		return []protoreflect.Value{protoreflect.ValueOfFloat64(-1), protoreflect.ValueOfFloat64(2), protoreflect.ValueOfFloat64(math.NaN()), protoreflect.ValueOfFloat64(0)}
	case protoreflect.FloatKind:
		return []protoreflect.Value{protoreflect.ValueOfFloat32(-1), protoreflect.ValueOfFloat32(2)}
	case protoreflect.BoolKind:
		return []protoreflect.Value{protoreflect.ValueOfBool(false), protoreflect.ValueOfBool(true)}
	case protoreflect.StringKind:
		return []protoreflect.Value{protoreflect.ValueOfString(""), protoreflect.ValueOfString("projects/p/instances/i/tables/nonexistent"), protoreflect.ValueOfString("("), protoreflect.ValueOfString(strings.Repeat("x", 300))}
	case protoreflect.BytesKind:
		return []protoreflect.Value{protoreflect.ValueOfBytes(nil), protoreflect.ValueOfBytes([]byte{0xff, 0}), protoreflect.ValueOfBytes([]byte("(")), protoreflect.ValueOfBytes(bytes.Repeat([]byte{'k'}, 300))}
	case protoreflect.EnumKind:
		return []protoreflect.Value{protoreflect.ValueOfEnum(99), protoreflect.ValueOfEnum(0)}
	}
	return nil
}

// genPerts lists perturbations of message m (walked along path) down to the given depth.
func genPerts(m protoreflect.Message, path []pstep, prefix string, depth int) []pert {
	var out []pert
	add := func(name string, f func(mm protoreflect.Message)) {
		out = append(out, pert{Name: prefix + name, path: append([]pstep(nil), path...), apply: f})
	}
	fds := m.Descriptor().Fields()
	for i := 0; i < fds.Len(); i++ {
		fd := fds.Get(i)
		n := string(fd.Name())
		if m.Has(fd) {
			add(n+":clear", func(mm protoreflect.Message) { mm.Clear(fd) })
		}
		switch {
		case fd.IsMap():
			add(n+":emptykey", func(mm protoreflect.Message) {
				mp := mm.Mutable(fd).Map()
				var v protoreflect.Value
				if fd.MapValue().Kind() == protoreflect.MessageKind {
					v = mp.NewValue()
				} else {
					v = fd.MapValue().Default()
				}
				mp.Set(fd.MapKey().Default().MapKey(), v)
			})
		case fd.IsList():
			if fd.Kind() == protoreflect.MessageKind {
				add(n+":append-empty", func(mm protoreflect.Message) { l := mm.Mutable(fd).List(); l.Append(l.NewElement()) })
				if m.Has(fd) && depth > 0 {
					l := m.Get(fd).List()
					for j := 0; j < l.Len() && j < 2; j++ {
						out = append(out, genPerts(l.Get(j).Message(), append(append([]pstep(nil), path...), pstep{fd, j}), fmt.Sprintf("%s%s[%d].", prefix, n, j), depth-1)...)
					}
				}
			} else {
				for vi, v := range scalarVariants(fd) {
					v := v
					add(fmt.Sprintf("%s:append#%d", n, vi), func(mm protoreflect.Message) { mm.Mutable(fd).List().Append(v) })
				}
			}
			if m.Has(fd) {
				add(n+":dup-first", func(mm protoreflect.Message) {
					l := mm.Mutable(fd).List()
					if l.Len() > 0 {
						l.Append(l.Get(0))
					}
				})
			}
		case fd.Kind() == protoreflect.MessageKind:
			add(n+":empty-message", func(mm protoreflect.Message) { mm.Set(fd, protoreflect.ValueOfMessage(mm.NewField(fd).Message())) })
			if m.Has(fd) && depth > 0 {
				out = append(out, genPerts(m.Get(fd).Message(), append(append([]pstep(nil), path...), pstep{fd, -1}), prefix+n+".", depth-1)...)
			}
		default:
			for vi, v := range scalarVariants(fd) {
				v := v
				add(fmt.Sprintf("%s:=#%d", n, vi), func(mm protoreflect.Message) { mm.Set(fd, v) })
			}
		}
	}
	return out
}

func applyPert(base proto.Message, ps ...pert) proto.Message {
	c := proto.Clone(base)
	for _, p := range ps {
		m := c.ProtoReflect()
		ok := true
		for _, st := range p.path {
			if st.idx < 0 {
				if !m.Has(st.fd) {
					ok = false
					break
				}
				m = m.Mutable(st.fd).Message()
			} else {
				l := m.Mutable(st.fd).List()
				if st.idx >= l.Len() {
					ok = false
					break
				}
				m = l.Get(st.idx).Message()
			}
		}
		if ok {
			p.apply(m)
		}
	}
	return c
}

// ---- Bigtable requests ---------------------------------------------------------------------------------

const tblK = parentI + "/tables/keep"

type failStream struct {
	nullStream
	failAt int // fail the n-th Send (1-based); 0 = never
	n      int
}

func (s *failStream) send(m proto.Message) error {
	if _, err := proto.Marshal(m); err != nil {
		panic("response does not marshal: " + err.Error())
	}
	s.n++
	if s.failAt > 0 && s.n >= s.failAt {
		return errors.New("transport is closing (client went away)")
	}
	return nil
}

type rrFail struct{ failStream }

func (s *rrFail) Send(m *btpb.ReadRowsResponse) error { return s.send(m) }

type mrFail struct{ failStream }

func (s *mrFail) Send(m *btpb.MutateRowsResponse) error { return s.send(m) }

type skFail struct{ failStream }

func (s *skFail) Send(m *btpb.SampleRowKeysResponse) error { return s.send(m) }

func c20BtBases() map[string]proto.Message {
	set := func(f, q string, ts int64, v string) *btpb.Mutation {
		return &btpb.Mutation{Mutation: &btpb.Mutation_SetCell_{SetCell: &btpb.Mutation_SetCell{FamilyName: f, ColumnQualifier: []byte(q), TimestampMicros: ts, Value: []byte(v)}}}
	}
	rich := &btpb.RowFilter{Filter: &btpb.RowFilter_Chain_{Chain: &btpb.RowFilter_Chain{Filters: []*btpb.RowFilter{
		{Filter: &btpb.RowFilter_Interleave_{Interleave: &btpb.RowFilter_Interleave{Filters: []*btpb.RowFilter{
			{Filter: &btpb.RowFilter_FamilyNameRegexFilter{FamilyNameRegexFilter: "f"}},
			{Filter: &btpb.RowFilter_ColumnRangeFilter{ColumnRangeFilter: &btpb.ColumnRange{FamilyName: "g", StartQualifier: &btpb.ColumnRange_StartQualifierClosed{StartQualifierClosed: []byte("a")}, EndQualifier: &btpb.ColumnRange_EndQualifierOpen{EndQualifierOpen: []byte("z")}}}},
		}}}},
		{Filter: &btpb.RowFilter_Condition_{Condition: &btpb.RowFilter_Condition{
			PredicateFilter: &btpb.RowFilter{Filter: &btpb.RowFilter_ValueRangeFilter{ValueRangeFilter: &btpb.ValueRange{StartValue: &btpb.ValueRange_StartValueOpen{StartValueOpen: []byte("a")}}}},
			TrueFilter:      &btpb.RowFilter{Filter: &btpb.RowFilter_CellsPerRowLimitFilter{CellsPerRowLimitFilter: 5}},
			FalseFilter:     &btpb.RowFilter{Filter: &btpb.RowFilter_TimestampRangeFilter{TimestampRangeFilter: &btpb.TimestampRange{StartTimestampMicros: 0, EndTimestampMicros: 5000}}},
		}}},
		{Filter: &btpb.RowFilter_CellsPerColumnLimitFilter{CellsPerColumnLimitFilter: 2}},
	}}}}
	return map[string]proto.Message{
		"CreateTable": &btapb.CreateTableRequest{Parent: parentI, TableId: "new", Table: &btapb.Table{ColumnFamilies: map[string]*btapb.ColumnFamily{"f": {GcRule: (&bt.GC{Kind: "union", Subs: []*bt.GC{{Kind: "maxver", N: 2}, {Kind: "maxage", AgeSec: 1}}}).Proto()}}}},
		"GetTable":    &btapb.GetTableRequest{Name: tblT},
		"ListTables":  &btapb.ListTablesRequest{Parent: parentI},
		"DeleteTable": &btapb.DeleteTableRequest{Name: tblT},
		"ModifyColumnFamilies": &btapb.ModifyColumnFamiliesRequest{Name: tblT, Modifications: []*btapb.ModifyColumnFamiliesRequest_Modification{
			{Id: "h", Mod: &btapb.ModifyColumnFamiliesRequest_Modification_Create{Create: &btapb.ColumnFamily{GcRule: (&bt.GC{Kind: "maxver", N: 2}).Proto()}}},
			{Id: "g", Mod: &btapb.ModifyColumnFamiliesRequest_Modification_Drop{Drop: true}}}},
		"DropRowRange":             &btapb.DropRowRangeRequest{Name: tblT, Target: &btapb.DropRowRangeRequest_RowKeyPrefix{RowKeyPrefix: []byte("a")}},
		"GenerateConsistencyToken": &btapb.GenerateConsistencyTokenRequest{Name: tblT},
		"CheckConsistency":         &btapb.CheckConsistencyRequest{Name: tblT, ConsistencyToken: "TokenFor-" + tblT},
		"MutateRow": &btpb.MutateRowRequest{TableName: tblT, RowKey: []byte("a"), Mutations: []*btpb.Mutation{set("f", "q", 1000, "v"),
			{Mutation: &btpb.Mutation_DeleteFromColumn_{DeleteFromColumn: &btpb.Mutation_DeleteFromColumn{FamilyName: "f", ColumnQualifier: []byte("q0"), TimeRange: &btpb.TimestampRange{StartTimestampMicros: 0, EndTimestampMicros: 2000}}}},
			{Mutation: &btpb.Mutation_DeleteFromFamily_{DeleteFromFamily: &btpb.Mutation_DeleteFromFamily{FamilyName: "g"}}}}},
		"MutateRows": &btpb.MutateRowsRequest{TableName: tblT, Entries: []*btpb.MutateRowsRequest_Entry{
			{RowKey: []byte("a"), Mutations: []*btpb.Mutation{set("f", "q", 1000, "v")}}, {RowKey: []byte("n"), Mutations: []*btpb.Mutation{set("g", "q", -1, "v")}}}},
		"CheckAndMutateRow": &btpb.CheckAndMutateRowRequest{TableName: tblT, RowKey: []byte("a"), PredicateFilter: rich,
			TrueMutations: []*btpb.Mutation{set("f", "t", 1000, "t")}, FalseMutations: []*btpb.Mutation{{Mutation: &btpb.Mutation_DeleteFromRow_{DeleteFromRow: &btpb.Mutation_DeleteFromRow{}}}}},
		"ReadModifyWriteRow": &btpb.ReadModifyWriteRowRequest{TableName: tblT, RowKey: []byte("a"), Rules: []*btpb.ReadModifyWriteRule{
			{FamilyName: "f", ColumnQualifier: []byte("n"), Rule: &btpb.ReadModifyWriteRule_IncrementAmount{IncrementAmount: 1}},
			{FamilyName: "g", ColumnQualifier: []byte("s"), Rule: &btpb.ReadModifyWriteRule_AppendValue{AppendValue: []byte("x")}}}},
		"ReadRows": &btpb.ReadRowsRequest{TableName: tblT, RowsLimit: 10, Filter: rich, Rows: &btpb.RowSet{RowKeys: [][]byte{[]byte("a")},
			RowRanges: []*btpb.RowRange{{StartKey: &btpb.RowRange_StartKeyClosed{StartKeyClosed: []byte("a")}, EndKey: &btpb.RowRange_EndKeyOpen{EndKeyOpen: []byte("c")}}}}},
		"ReadRowsAll":   &btpb.ReadRowsRequest{TableName: tblT},
		"SampleRowKeys": &btpb.SampleRowKeysRequest{TableName: tblT},
	}
}

func c20CallBt(S *bttest.VerifServer, name string, m proto.Message, failAt int) (resp proto.Message, err error) {
	ctx := context.Background()
	switch r := m.(type) {
	case *btapb.CreateTableRequest:
		return S.CreateTable(ctx, r)
	case *btapb.GetTableRequest:
		return S.GetTable(ctx, r)
	case *btapb.ListTablesRequest:
		return S.ListTables(ctx, r)
	case *btapb.DeleteTableRequest:
		return S.DeleteTable(ctx, r)
	case *btapb.ModifyColumnFamiliesRequest:
		return S.ModifyColumnFamilies(ctx, r)
	case *btapb.DropRowRangeRequest:
		return S.DropRowRange(ctx, r)
	case *btapb.GenerateConsistencyTokenRequest:
		return S.GenerateConsistencyToken(ctx, r)
	case *btapb.CheckConsistencyRequest:
		return S.CheckConsistency(ctx, r)
	case *btpb.MutateRowRequest:
		return S.MutateRow(ctx, r)
	case *btpb.MutateRowsRequest:
		return nil, S.MutateRows(r, &mrFail{failStream{failAt: failAt}})
	case *btpb.CheckAndMutateRowRequest:
		return S.CheckAndMutateRow(ctx, r)
	case *btpb.ReadModifyWriteRowRequest:
		return S.ReadModifyWriteRow(ctx, r)
	case *btpb.ReadRowsRequest:
		return nil, S.ReadRows(r, &rrFail{failStream{failAt: failAt}})
	case *btpb.SampleRowKeysRequest:
		return nil, S.SampleRowKeys(r, &skFail{failStream{failAt: failAt}})
	}
	panic("c20CallBt: " + name)
}

type c20BtCase struct {
	Engine string   `json:"engine"`
	RPC    string   `json:"rpc"`
	Perts  []int    `json:"perts"` // indexes into the perturbation list of the RPC (deterministic order)
	Names  []string `json:"names"`
	FailAt int      `json:"fail_send_at,omitempty"`
	Text   string   `json:"request_text,omitempty"`
}

var c20BtPertCache = map[string][]pert{}

func c20BtPerts(rpc string) []pert {
	if p, ok := c20BtPertCache[rpc]; ok {
		return p
	}
	p := genPerts(c20BtBases()[rpc].ProtoReflect(), nil, "", 4)
	c20BtPertCache[rpc] = p
	return p
}

var c20KeepRows string

// runC20BtCase executes one perturbed request on a fresh populated instance as a one-thread
// controlled execution, then probes the service. Returns a violation class and detail.
func runC20BtCase(c *fw.Ctx, cs *c20BtCase) (string, string) {
	base := c20BtBases()[cs.RPC]
	all := c20BtPerts(cs.RPC)
	var ps []pert
	cs.Names = cs.Names[:0]
	for _, i := range cs.Perts {
		if i < 0 || i >= len(all) {
			return "internal", "perturbation index out of range"
		}
		ps = append(ps, all[i])
		cs.Names = append(cs.Names, all[i].Name)
	}
	req := applyPert(base, ps...)
	// wire fidelity: what the server sees is what survives marshalling
	wire, err := proto.Marshal(req)
	if err != nil {
		return "", "" // not encodable: a client cannot send it
	}
	req2 := req.ProtoReflect().New().Interface()
	if err := proto.Unmarshal(wire, req2); err != nil {
		return "", ""
	}
	cs.Text = prototext.MarshalOptions{}.Format(req2)
	if len(cs.Text) > 1500 {
		cs.Text = cs.Text[:1500] + "…"
	}
	vtime.SetVirtual(1_700_000_000_000_000_000, 1)
	var raw bttest.Rows
	var rawK bttest.Rows
	dir := ""
	if cs.Engine == "disk" {
		c20Seq++
		dir = filepath.Join(c.Scratch, fmt.Sprintf("c20bt-%d", c20Seq))
		_ = os.MkdirAll(dir, 0o777)
		defer os.RemoveAll(dir)
	}
	d := bt.NewDriverOn(cs.Engine, dir, bt.PointStorage{Storage: bt.NewStorage(cs.Engine, dir), OnCreate: func(n string, r bttest.Rows) {
		if n == tblT {
			raw = r
		} else if n == tblK {
			rawK = r
		}
	}})
	defer d.Close()
	d.Clock = 10_000_000
	mk := func(id string) {
		if _, err := d.S.CreateTable(context.Background(), &btapb.CreateTableRequest{Parent: parentI, TableId: id, Table: &btapb.Table{ColumnFamilies: map[string]*btapb.ColumnFamily{
			"f": {}, "g": {GcRule: (&bt.GC{Kind: "maxver", N: 1}).Proto()}}}}); err != nil {
			panic(err)
		}
	}
	mk("t")
	mk("keep")
	for _, r := range c20BtRows() {
		raw.ReplaceOrInsert(proto.Clone(r).(*btpb.Row))
		if string(r.Key) != "b" { // the bystander table does not need the 1100-cell row
			rawK.ReplaceOrInsert(proto.Clone(r).(*btpb.Row))
		}
	}
	var callPanic, respBad, probeBad string
	var gotErr error
	thread := func() {
		func() {
			defer func() {
				if r := recover(); r != nil {
					callPanic = fmt.Sprint(r)
				}
			}()
			resp, err := c20CallBt(d.S, cs.RPC, req2, cs.FailAt)
			gotErr = err
			if err == nil && resp != nil {
				if _, e := proto.Marshal(resp); e != nil {
					respBad = "response does not marshal: " + e.Error()
				}
			}
			if err != nil {
				if _, ok := status.FromError(err); !ok {
					_ = ok // a plain error becomes gRPC status Unknown: well-formed
				}
			}
		}()
		if callPanic != "" {
			return
		}
		// probes: the bystander table is intact and valid requests are still served
		func() {
			defer func() {
				if r := recover(); r != nil {
					probeBad = "probe panicked: " + fmt.Sprint(r)
				}
			}()
			got := d.Apply(&bt.Op{Kind: "ReadRows", Table: tblK})
			if got.Panic != "" || got.Code != "OK" || got.Malformed != "" {
				probeBad = "a valid read of another table afterwards: " + got.Code + " " + got.Panic + got.Malformed
				return
			}
			rs := bt.RowsString(got.Rows)
			if c20KeepRows == "" {
				c20KeepRows = rs
			} else if rs != c20KeepRows {
				probeBad = "the rows of an untouched table changed"
				return
			}
			if w := d.Apply(&bt.Op{Kind: "MutateRow", Table: tblK, Key: []byte("probe"), Muts: []bt.Mut{mset("f", "p", 1000, "p")}}); w.Code != "OK" {
				probeBad = "a valid write to another table afterwards: " + w.Code + " " + w.Panic
				return
			}
			// the perturbed table (if it still exists) must still be readable and writable
			if r2 := d.Apply(&bt.Op{Kind: "ReadRows", Table: tblT}); r2.Panic != "" || (r2.Code != "OK" && r2.Code != "NotFound") || r2.Malformed != "" {
				probeBad = "reading the target table afterwards: " + r2.Code + " " + r2.Panic + r2.Malformed
				return
			}
			if w2 := d.Apply(&bt.Op{Kind: "MutateRow", Table: tblT, Key: []byte("probe"), Muts: []bt.Mut{mset("f", "p", 1000, "p")}}); w2.Panic != "" || (w2.Code != "OK" && w2.Code != "NotFound") {
				probeBad = "writing the target table afterwards: " + w2.Code + " " + w2.Panic
			}
		}()
	}
	x := sched.Run(nil, schedMaxSteps, nil, thread)
	_ = gotErr
	switch {
	case callPanic != "":
		return "panic", "request panicked: " + callPanic
	case x.NPanic > 0:
		return "panic", x.Panics[0]
	case x.Deadlock:
		return "hang", "the service wedged: a follow-up request can never proceed (" + strings.Join(x.Blocked[:1], ",") + ")"
	case x.Horizon:
		return "hang", "the request did not finish within the step horizon"
	case respBad != "":
		return "response", respBad
	case probeBad != "":
		return "after", probeBad
	}
	return "", ""
}

// ---- GCS requests --------------------------------------------------------------------------------------

type c20GcsCase struct {
	// TokenFrom: a listing sent first; its nextPageToken is added to Req (a page token taken from one listing and presented
	// with the parameters of another)
	TokenFrom *gcs.HTTPReq `json:"token_from,omitempty"`
	// TokenPages: the token is the one of the k-th page of that listing's page chain (1 = first page)
	TokenPages int           `json:"token_pages,omitempty"`
	Store      string        `json:"store"`
	Pre        string        `json:"pre,omitempty"` // extra preparation: "gzipmeta"
	Req        gcs.HTTPReq   `json:"req"`
	Batch      []gcs.HTTPReq `json:"batch,omitempty"`
	Label      string        `json:"label"`
}

func c20GcsSetup(d *gcs.Driver, pre string) string {
	for _, r := range []gcs.HTTPReq{gcs.ReqCreateBucket("b"), gcs.ReqCreateBucket("keepb"),
		gcs.ReqUploadMultipart("keepb", "keep", []byte("precious"), gcs.ObjMeta{ContentType: "text/keep", Metadata: map[string]string{"k": "v"}}, nil, false),
		gcs.ReqUploadMultipart("b", "x", []byte("orig"), gcs.ObjMeta{ContentType: "text/orig", Metadata: map[string]string{"o": "1"}}, nil, false),
		gcs.ReqUploadMedia("b", "y", []byte("yy"), gcs.ObjMeta{ContentType: "text/y"}, nil, false),
		gcs.ReqResumableStart("b", "r", gcs.ObjMeta{ContentType: "text/r"}, nil), // upload_id=1 stays open
	} {
		if resp := d.Do(r); resp.Status != 200 {
			return fmt.Sprintf("setup request failed: %s -> %d %s", r.String(), resp.Status, resp.Panic)
		}
	}
	if pre == "tree" {
		for _, n := range []string{"a/b/x", "a/b/y", "a/c", "a-b", "b/y", "c", "d/e/f"} {
			if resp := d.Do(gcs.ReqUploadMedia("b", n, []byte(n), gcs.ObjMeta{ContentType: "text/t"}, nil, false)); resp.Status != 200 {
				return "setup tree failed"
			}
		}
	}
	if pre == "gzipmeta" {
		// an object whose metadata says gzip while its content is not gzip
		if resp := d.Do(gcs.ReqUploadMultipart("b", "gz", []byte("not gzip at all"), gcs.ObjMeta{ContentType: "text/plain", ContentEncoding: "gzip"}, nil, false)); resp.Status != 200 {
			return "setup gz failed"
		}
	}
	return ""
}

func keepState(d *gcs.Driver) string {
	a := d.Do(gcs.ReqGetMedia("json", "keepb", "keep"))
	b := d.Do(gcs.ReqGetMeta("keepb", "keep"))
	if a.Panic != "" || b.Panic != "" {
		return "panic: " + a.Panic + b.Panic
	}
	v, err := gcs.ParseObject(b.Body)
	if err != nil || a.Status != 200 || b.Status != 200 {
		return fmt.Sprintf("unreadable: %d %d %v", a.Status, b.Status, err)
	}
	return fmt.Sprintf("%s|%s", a.Body, v.String())
}

// wellFormed checks the shape of one HTTP response.
func wellFormed(r gcs.HTTPResp) string {
	if r.Panic != "" {
		return "handler panicked: " + r.Panic
	}
	if r.Status < 100 || r.Status > 599 {
		return fmt.Sprintf("invalid HTTP status %d", r.Status)
	}
	if r.Status >= 400 {
		ct := r.Header.Get("Content-Type")
		if strings.HasPrefix(ct, "application/json") {
			code, _, ok := gcs.APIError(r.Body)
			if !ok {
				return fmt.Sprintf("status %d with an unparsable JSON error body %.100q", r.Status, r.Body)
			}
			if code != r.Status {
				return fmt.Sprintf("JSON error code %d differs from HTTP status %d", code, r.Status)
			}
		} else if len(bytes.TrimSpace(r.Body)) == 0 && r.Status != 405 {
			return fmt.Sprintf("status %d without an error body", r.Status)
		}
	} else if r.Status == 200 && strings.HasPrefix(r.Header.Get("Content-Type"), "application/json") {
		var v interface{}
		if err := json.Unmarshal(r.Body, &v); err != nil {
			return fmt.Sprintf("status 200 with Content-Type JSON but an unparsable body %.100q", r.Body)
		}
	}
	return ""
}

func parseBatchResponse(r gcs.HTTPResp) ([]gcs.HTTPResp, string) {
	_, params, err := mime.ParseMediaType(r.Header.Get("Content-Type"))
	if err != nil || params["boundary"] == "" {
		return nil, "batch response without a multipart content type"
	}
	mr := multipart.NewReader(bytes.NewReader(r.Body), params["boundary"])
	var out []gcs.HTTPResp
	for {
		p, err := mr.NextPart()
		if err == io.EOF {
			return out, ""
		}
		if err != nil {
			return out, "malformed batch response: " + err.Error()
		}
		b, _ := io.ReadAll(p)
		resp, err := http.ReadResponse(bufio.NewReader(bytes.NewReader(b)), nil)
		if err != nil {
			return out, "batch part is not an HTTP response: " + err.Error()
		}
		body, _ := io.ReadAll(resp.Body)
		out = append(out, gcs.HTTPResp{Status: resp.StatusCode, Header: resp.Header, Body: body})
	}
}

func runC20GcsCase(c *fw.Ctx, cs *c20GcsCase) (string, string) {
	vtime.SetVirtual(1_700_000_000_000_000_000, 1)
	vos.Hook = nil
	mk := func() (*gcs.Driver, string) {
		dir := ""
		if cs.Store == "file" {
			c20Seq++
			dir = filepath.Join(c.Scratch, fmt.Sprintf("c20g-%d", c20Seq))
			_ = os.MkdirAll(dir, 0o777)
		}
		return gcs.NewDriver(cs.Store, dir, nil), dir
	}
	d, dir := mk()
	if dir != "" {
		defer os.RemoveAll(dir)
	}
	if e := c20GcsSetup(d, cs.Pre); e != "" {
		return "internal", e
	}
	before := keepState(d)
	var resp gcs.HTTPResp
	var after, probe string
	thread := func() {
		req := cs.Req
		if cs.Batch != nil {
			req = c20Batch(cs.Batch)
		}
		if cs.TokenFrom != nil {
			addTok := func(r gcs.HTTPReq, tok string) gcs.HTTPReq {
				sep := "?"
				if strings.Contains(r.URL, "?") {
					sep = "&"
				}
				r.URL += sep + "pageToken=" + url.QueryEscape(tok)
				return r
			}
			tok := ""
			for k := 0; k < max(cs.TokenPages, 1); k++ {
				fr := *cs.TokenFrom
				if tok != "" {
					fr = addTok(fr, tok)
				}
				first := d.Do(fr)
				if first.Panic != "" {
					resp = first
					return
				}
				var l struct {
					Next string `json:"nextPageToken"`
				}
				_ = json.Unmarshal(first.Body, &l)
				if l.Next == "" {
					resp = first
					after = keepState(d)
					return // the listing has no further page: nothing to present
				}
				tok = l.Next
			}
			req = addTok(req, tok)
		}
		resp = d.Do(req)
		if resp.Panic != "" {
			return
		}
		after = keepState(d)
		// the emulator still serves valid requests
		pr := d.Do(gcs.ReqUploadMedia("keepb", "probe", []byte("p"), gcs.ObjMeta{ContentType: "text/p"}, nil, false))
		if pr.Status != 200 {
			probe = fmt.Sprintf("a valid upload afterwards answers %d %s", pr.Status, pr.Panic)
		}
		for _, u := range []gcs.HTTPReq{gcs.ReqGetMeta("b", "x"), gcs.ReqGetMedia("json", "b", "y"), gcs.ReqList("b", nil)} {
			if r := d.Do(u); r.Panic != "" {
				probe = "a valid request afterwards panics: " + u.String() + ": " + r.Panic
			}
		}
	}
	x := sched.Run(nil, schedMaxSteps, nil, thread)
	switch {
	case x.NPanic > 0:
		return "panic", x.Panics[0]
	case x.Deadlock:
		return "hang", "the emulator wedged: a follow-up request can never proceed"
	case x.Horizon:
		return "hang", "the request did not finish within the step horizon"
	}
	if resp.Status == -1 {
		return "", "" // not a request a client can put on the wire (net/http rejects the URL before any handler runs)
	}
	if bad := wellFormed(resp); bad != "" {
		cl := "response"
		if resp.Panic != "" {
			cl = "panic"
		}
		return cl, bad
	}
	if after != before {
		return "after", fmt.Sprintf("an object in another bucket changed: before %.200q after %.200q", before, after)
	}
	if probe != "" {
		return "after", probe
	}
	if cs.Batch != nil && resp.Status != 200 && len(cs.Batch) <= 100 {
		return "batch", fmt.Sprintf("a well-formed batch of %d requests is answered %d %.120q as a whole instead of one sub-response per part", len(cs.Batch), resp.Status, resp.Body)
	}
	if cs.Batch != nil && resp.Status == 200 {
		parts, bad := parseBatchResponse(resp)
		if bad != "" {
			return "batch", bad
		}
		if len(parts) != len(cs.Batch) {
			return "batch", fmt.Sprintf("batch of %d requests answered with %d parts", len(cs.Batch), len(parts))
		}
		// twin: the same requests one by one
		vtime.SetVirtual(1_700_000_000_000_000_000, 1)
		t, tdir := mk()
		if tdir != "" {
			defer os.RemoveAll(tdir)
		}
		if e := c20GcsSetup(t, cs.Pre); e != "" {
			return "internal", e
		}
		g1, g2 := map[string]int{}, map[string]int{}
		for i, r := range cs.Batch {
			alone := t.Do(r)
			if alone.Panic != "" {
				return "panic", "stand-alone request panicked: " + alone.Panic
			}
			a := fmt.Sprintf("%d %s", parts[i].Status, normBody(parts[i].Body, g1))
			b := fmt.Sprintf("%d %s", alone.Status, normBody(alone.Body, g2))
			if a != b {
				return "batch", fmt.Sprintf("batch part %d (%s) differs from the same request on its own:\n   batch: %.300s\n   alone: %.300s", i, r.String(), a, b)
			}
		}
	}
	return "", ""
}

var _ = httptest.NewRecorder

func c20GcsCatalogue() []c20GcsCase {
	var out []c20GcsCase
	add := func(label string, r gcs.HTTPReq) { out = append(out, c20GcsCase{Req: r, Label: label}) }
	bases := map[string]gcs.HTTPReq{
		"createBucket":   gcs.ReqCreateBucket("nb"),
		"getBucket":      gcs.ReqGetBucket("b"),
		"deleteBucket":   gcs.ReqDeleteBucket("b"),
		"uploadMedia":    gcs.ReqUploadMedia("b", "n", []byte("data"), gcs.ObjMeta{ContentType: "text/n"}, map[string]string{"ifGenerationMatch": "0"}, false),
		"uploadMulti":    gcs.ReqUploadMultipart("b", "n", []byte("data"), gcs.ObjMeta{ContentType: "text/n", Metadata: map[string]string{"a": "b"}, Md5Hash: gcs.MD5b64([]byte("data"))}, nil, false),
		"resumableStart": gcs.ReqResumableStart("b", "n", gcs.ObjMeta{ContentType: "text/n"}, nil),
		"resumableChunk": gcs.ReqResumableChunk("/upload/storage/v1/b/b/o?uploadType=resumable&upload_id=1", []byte("abc"), "bytes 0-2/3", false, false),
		"getMedia":       gcs.ReqGetMedia("json", "b", "x"),
		"getDownload":    gcs.ReqGetMedia("download", "b", "x"),
		"getPublic":      gcs.ReqGetMedia("public", "b", "x"),
		"getMeta":        gcs.ReqGetMeta("b", "x"),
		"patch":          gcs.ReqPatch("b", "x", []byte(`{"metadata":{"p":"1"},"contentType":"text/p"}`), map[string]string{"ifMetagenerationMatch": "1"}),
		"delete":         gcs.ReqDelete("b", "x", map[string]string{"ifGenerationNotMatch": "5"}),
		"list":           gcs.ReqList("b", map[string][]string{"prefix": {"x"}, "delimiter": {"/"}, "maxResults": {"1"}}),
		"compose":        gcs.ReqCompose("b", "c", []gcs.ComposeSrc{{Name: "x", GenMatch: 1}, {Name: "y"}}, &gcs.ObjMeta{ContentType: "text/c"}, nil),
		"copy":           gcs.ReqCopy("b", "x", "b", "cp"),
	}
	var names []string
	for n := range bases {
		names = append(names, n)
	}
	sort.Strings(names)
	methods := []string{"GET", "POST", "PUT", "PATCH", "DELETE", "HEAD", "OPTIONS"}
	for _, n := range names {
		b := bases[n]
		add(n+":valid", b)
		path, query := b.URL, ""
		if i := strings.Index(b.URL, "?"); i >= 0 {
			path, query = b.URL[:i], b.URL[i+1:]
		}
		// path truncations and decorations
		segs := strings.Split(path, "/")
		for k := 1; k < len(segs); k++ {
			add(fmt.Sprintf("%s:path-trunc%d", n, k), withURL(b, strings.Join(segs[:k], "/")+q(query)))
			add(fmt.Sprintf("%s:path-trunc%d/", n, k), withURL(b, strings.Join(segs[:k], "/")+"/"+q(query)))
		}
		for _, suf := range []string{"/", "//", "/compose", "/compose/compose", "/rewriteTo/b/", "/rewriteTo/b/b", "/rewriteTo/b/b/o/", "/rewriteTo/b//o/z", "/rewriteTo/b/b/o/z/rewriteTo/b/b/o/q", "/%zz", "/%00", "/..", "/../../etc"} {
			add(n+":path+"+suf, withURL(b, path+suf+q(query)))
		}
		// query parameters
		if query != "" {
			kvs := strings.Split(query, "&")
			for i := range kvs {
				rest := append(append([]string(nil), kvs[:i]...), kvs[i+1:]...)
				add(fmt.Sprintf("%s:drop-param-%s", n, kvs[i]), withURL(b, path+q(strings.Join(rest, "&"))))
				key := strings.SplitN(kvs[i], "=", 2)[0]
				for _, v := range []string{"", "-1", "abc", "99999999999999999999", "0", "%zz", "1e3", "9223372036854775807", "4611686018427387904"} {
					alt := append(append(append([]string(nil), kvs[:i]...), key+"="+v), kvs[i+1:]...)
					add(fmt.Sprintf("%s:param-%s=%s", n, key, v), withURL(b, path+q(strings.Join(alt, "&"))))
				}
			}
		}
		for _, extra := range []string{"upload_id=999", "upload_id=abc", "upload_id=", "uploadType=bogus", "uploadType=resumable", "alt=bogus", "alt=media", "ifGenerationMatch=x", "pageToken=%25%25", "maxResults=0", "name=",
			// sizes at the edge of the integer range (they either fail to parse or are far above any count: nothing may be
			// sized by them)
			"maxResults=9223372036854775807", "maxResults=4611686018427387904", "maxResults=99999999999999999999999", "maxResults=-9223372036854775808"} {
			u := path + "?" + extra
			if query != "" {
				u = path + "?" + query + "&" + extra
			}
			add(n+":add-param-"+extra, withURL(b, u))
		}
		// methods
		for _, m := range methods {
			if m != b.Method {
				r := b
				r.Method = m
				add(n+":method-"+m, r)
			}
		}
		// headers
		for _, h := range []struct{ k, v string }{{"Content-Type", ""}, {"Content-Type", "multipart/related"}, {"Content-Type", "multipart/related; boundary="}, {"Content-Type", "multipart/related; boundary=nope"},
			{"Content-Type", "text/plain; charset"}, {"Content-Type", "application/json"}, {"Content-Encoding", "gzip"}, {"Content-Range", ""}, {"Content-Range", "bytes 0-0/*"}, {"Content-Range", "bytes 5-1/3"},
			{"Content-Range", "bytes a-b/c"}, {"Content-Range", "bytes */x"}, {"Content-Range", "bytes 0-99/10"}, {"Content-Range", "bytes 2-4/5"}, {"Content-Range", "bytes */*"}, {"Content-Range", "bytes 0-2"},
			{"Content-Range", "bytes -1-2/3"}, {"Content-Range", "bytes 0-2/-3"}, {"Content-Range", "items 0-2/3"}, {"X-Forwarded-Host", ","}, {"Forwarded", "host=;;"}, {"Forwarded", "host=\""}, {"Accept-Encoding", "gzip"},
			// byte ranges and HTTP-level conditions a client library may send with any request (honoured or ignored: never fatal)
			{"Range", "bytes=0-0"}, {"Range", "bytes=0-"}, {"Range", "bytes=-1"}, {"Range", "bytes=-11"}, {"Range", "bytes=-99999"}, {"Range", "bytes=-0"}, {"Range", "bytes=-"},
			{"Range", "bytes=5-2"}, {"Range", "bytes=4-"}, {"Range", "bytes=100-"}, {"Range", "bytes=0-99999"}, {"Range", "bytes=a-b"}, {"Range", "bytes=0-1,3-3"}, {"Range", "items=0-1"},
			{"Range", "bytes=9223372036854775807-"}, {"Range", "bytes=-9223372036854775808"}, {"Range", "bytes=0-18446744073709551615"}, {"Range", "bytes"}, {"Range", "="},
			{"If-None-Match", "*"}, {"If-Match", "\"nope\""}, {"If-Modified-Since", "Mon, 02 Jan 2006 15:04:05 GMT"}, {"If-Range", "\"x\""}, {"Expect", "100-continue"},
			{"X-HTTP-Method-Override", "DELETE"}, {"X-Upload-Content-Length", "-1"}, {"X-Upload-Content-Length", "abc"}, {"X-Upload-Content-Type", ";;"}, {"Content-Length", "0"}} {
			r := b
			r.Header = map[string]string{}
			for k, v := range b.Header {
				r.Header[k] = v
			}
			if h.v == "" {
				delete(r.Header, h.k)
			} else {
				r.Header[h.k] = h.v
			}
			add(fmt.Sprintf("%s:header-%s=%s", n, h.k, h.v), r)
		}
		// body: every truncation point, and a few corruptions
		if len(b.Body) > 0 {
			for k := 0; k < len(b.Body); k++ {
				r := b
				r.Body = append([]byte{}, b.Body[:k]...)
				add(fmt.Sprintf("%s:body-trunc%d", n, k), r)
			}
			for _, alt := range []string{"null", "[]", "\"str\"", "{}", "{\"name\":5}", "{\"sourceObjects\":null}", "{\"sourceObjects\":[{}]}", "{\"sourceObjects\":[{\"name\":\"x\",\"objectPreconditions\":null}]}",
				"{\"destination\":null,\"sourceObjects\":[{\"name\":\"x\"}]}", "{\"metadata\":5}", "{\"metadata\":{\"a\":null}}", "{\"size\":\"-1\"}", "\xff\xfe", strings.Repeat("[", 2000)} {
				r := b
				r.Body = []byte(alt)
				add(fmt.Sprintf("%s:body=%.20s", n, alt), r)
			}
		}
	}
	// a page token from one listing presented with the parameters of another (every ordered pair of a menu of listings)
	{
		var ls []gcs.HTTPReq
		for _, pfx := range []string{"", "a", "a/", "a/b/", "b", "c", "zz"} {
			for _, dl := range []string{"", "/", "-", "b"} {
				for _, mx := range []string{"1", "2"} {
					ps := map[string][]string{"maxResults": {mx}}
					if pfx != "" {
						ps["prefix"] = []string{pfx}
					}
					if dl != "" {
						ps["delimiter"] = []string{dl}
					}
					ls = append(ls, gcs.ReqList("b", ps))
				}
			}
		}
		for i := range ls {
			for j := range ls {
				if i == j {
					continue
				}
				first := ls[i]
				for k := 1; k <= 3; k++ {
					out = append(out, c20GcsCase{Pre: "tree", TokenFrom: &first, TokenPages: k, Req: ls[j], Label: fmt.Sprintf("list:token-of-%d.%d-with-%d", i, k, j)})
				}
			}
		}
	}
	// gzip-flagged object served to a client that does not accept gzip
	out = append(out, c20GcsCase{Pre: "gzipmeta", Req: gcs.ReqGetMedia("json", "b", "gz"), Label: "gzipmeta:getMedia"},
		c20GcsCase{Pre: "gzipmeta", Req: gcs.ReqGetMedia("public", "b", "gz"), Label: "gzipmeta:getPublic"},
		c20GcsCase{Pre: "gzipmeta", Req: withHeader(gcs.ReqGetMedia("json", "b", "gz"), "Accept-Encoding", "gzip"), Label: "gzipmeta:getMedia+accept"},
		c20GcsCase{Pre: "gzipmeta", Req: gcs.ReqCopy("b", "gz", "b", "gz2"), Label: "gzipmeta:copy"})
	// batches: every ordered pair of a menu of inner requests (valid and invalid), and truncated batch bodies
	menu := []gcs.HTTPReq{gcs.ReqGetMeta("b", "x"), gcs.ReqDelete("b", "y", nil), gcs.ReqGetMeta("b", "missing"), gcs.ReqPatch("b", "x", []byte(`{"metadata":{"b":"1"}}`), nil),
		gcs.ReqDelete("b", "x", map[string]string{"ifGenerationMatch": "abc"}), gcs.ReqList("b", nil), gcs.ReqCopy("b", "x", "b", "x2"), withURL(gcs.ReqGetMeta("b", "x"), "/nonsense"),
		gcs.ReqCompose("b", "c", []gcs.ComposeSrc{{Name: "x"}}, nil, nil)}
	for i := range menu {
		out = append(out, c20GcsCase{Batch: []gcs.HTTPReq{menu[i]}, Label: fmt.Sprintf("batch:%d", i)})
		for j := range menu {
			out = append(out, c20GcsCase{Batch: []gcs.HTTPReq{menu[i], menu[j]}, Label: fmt.Sprintf("batch:%d,%d", i, j)})
		}
	}
	// sub-requests whose bodies cross the sizes of the buffers a parser may sit on (4 KiB bufio, 32 KiB copy buffer,
	// 64 KiB), alone, before and after a small part, and a batch of many parts
	for _, n := range []int{3000, 4090, 5000, 33000, 70000} {
		big := gcs.ReqPatch("b", "x", []byte(`{"metadata":{"big":"`+strings.Repeat("v", n)+`"}}`), nil)
		out = append(out, c20GcsCase{Batch: []gcs.HTTPReq{big}, Label: fmt.Sprintf("batch:big%d", n)},
			c20GcsCase{Batch: []gcs.HTTPReq{menu[0], big}, Label: fmt.Sprintf("batch:0,big%d", n)},
			c20GcsCase{Batch: []gcs.HTTPReq{big, menu[0]}, Label: fmt.Sprintf("batch:big%d,0", n)},
			c20GcsCase{Batch: []gcs.HTTPReq{big, big}, Label: fmt.Sprintf("batch:big%d,big%d", n, n)})
	}
	// batches around the documented maximum of 100 calls (a larger one may be refused as a whole)
	for _, n := range []int{99, 100, 101, 120} {
		var many []gcs.HTTPReq
		for i := 0; len(many) < n; i++ {
			many = append(many, menu[0])
			if len(many) < n {
				many = append(many, gcs.ReqPatch("b", "x", []byte(fmt.Sprintf(`{"metadata":{"n":"%d"}}`, i)), nil))
			}
		}
		out = append(out, c20GcsCase{Batch: many, Label: fmt.Sprintf("batch:%d-parts", n)})
	}
	full := c20Batch([]gcs.HTTPReq{menu[0], menu[3]})
	for k := 0; k < len(full.Body); k += 1 {
		r := full
		r.Body = append([]byte{}, full.Body[:k]...)
		add(fmt.Sprintf("batch:body-trunc%d", k), r)
	}
	for _, ct := range []string{"", "multipart/mixed", "multipart/mixed; boundary=", "multipart/mixed; boundary=other", "application/json"} {
		r := full
		r.Header = map[string]string{"Content-Type": ct}
		add("batch:content-type="+ct, r)
	}
	inner := strings.ReplaceAll(string(full.Body), "Content-Type: application/http", "Content-Type: text/plain")
	add("batch:part-content-type", gcs.HTTPReq{Method: "POST", URL: full.URL, Header: full.Header, Body: []byte(inner)})
	inner2 := strings.ReplaceAll(string(full.Body), "HTTP/1.1", "BOGUS")
	add("batch:inner-request-line", gcs.HTTPReq{Method: "POST", URL: full.URL, Header: full.Header, Body: []byte(inner2)})
	return out
}

func q(query string) string {
	if query == "" {
		return ""
	}
	return "?" + query
}

func withURL(r gcs.HTTPReq, u string) gcs.HTTPReq {
	r.URL = u
	return r
}

func withHeader(r gcs.HTTPReq, k, v string) gcs.HTTPReq {
	h := map[string]string{}
	for a, b := range r.Header {
		h[a] = b
	}
	h[k] = v
	r.Header = h
	return r
}

// ---- driver -------------------------------------------------------------------------------------------

type c20InputCase struct {
	Bt  *c20BtCase  `json:"bt,omitempty"`
	Gcs *c20GcsCase `json:"gcs,omitempty"`
}

func replayC20Input(c *fw.Ctx, raw json.RawMessage) (string, string) {
	var ic c20InputCase
	if err := json.Unmarshal(raw, &ic); err != nil {
		return "bad-replay", err.Error()
	}
	if ic.Bt != nil {
		cl, d := runC20BtCase(c, ic.Bt)
		if cl == "" {
			return "", ""
		}
		return fmt.Sprintf("C20:input:bt:%s:%s:%s", ic.Bt.RPC, cl, strings.Join(ic.Bt.Names, "&")), d
	}
	if ic.Gcs != nil {
		cl, d := runC20GcsCase(c, ic.Gcs)
		if cl == "" {
			return "", ""
		}
		return fmt.Sprintf("C20:input:gcs:%s:%s:%s", ic.Gcs.Store, cl, gcsLabelClass(ic.Gcs.Label)), d
	}
	return "bad-replay", "empty case"
}

// gcsLabelClass drops the numeric part of truncation labels so that one defect is one signature.
func gcsLabelClass(l string) string {
	for _, k := range []string{":body-trunc", ":path-trunc", ":token-of-"} {
		if i := strings.Index(l, k); i >= 0 {
			return l[:i+len(k)]
		}
	}
	return l
}

func runC20Inputs(c *fw.Ctx, item *int64) {
	// Bigtable
	bases := c20BtBases()
	var rpcs []string
	for n := range bases {
		rpcs = append(rpcs, n)
	}
	sort.Strings(rpcs)
	engines := []string{"btree", "mem"}
	try := func(cs *c20BtCase) {
		*item++
		if !c.Mine(*item) {
			return
		}
		cl, d := runC20BtCase(c, cs)
		c.Eval(1)
		c.Trace(1)
		c.Trans(1)
		c.State(fw.Hash("bt", cs.Engine, cs.RPC, fmt.Sprint(cs.Perts, cs.FailAt)))
		if cl != "" {
			sig := fmt.Sprintf("C20:input:bt:%s:%s:%s", cs.RPC, cl, strings.Join(cs.Names, "&"))
			cp := *cs
			c.Violate(sig, d+"\n  request ("+cs.RPC+" with "+strings.Join(cs.Names, " & ")+"):\n"+cs.Text, c20InputCase{Bt: &cp}, func() string {
				cc := cp
				cl2, _ := runC20BtCase(c, &cc)
				if cl2 == "" {
					return ""
				}
				return fmt.Sprintf("C20:input:bt:%s:%s:%s", cc.RPC, cl2, strings.Join(cc.Names, "&"))
			})
			c.Outcome("bt:" + cl)
			return
		}
		c.Outcome("bt:ok:" + cs.RPC)
		if *item%1777 == 0 {
			c.Sample(map[string]interface{}{"rpc": cs.RPC, "perturbations": cs.Names, "engine": cs.Engine})
		}
	}
	nPert := 0
	for _, eng := range engines {
		for _, rpc := range rpcs {
			ps := c20BtPerts(rpc)
			nPert += len(ps)
			if c.Expired() {
				c.Incomplete("time budget reached in the Bigtable input catalogue")
				return
			}
			try(&c20BtCase{Engine: eng, RPC: rpc})
			for i := range ps {
				try(&c20BtCase{Engine: eng, RPC: rpc, Perts: []int{i}})
			}
			// pairs: all pairs in the thorough tier, pairs of top-level perturbations in the quick tier (btree only)
			if eng == "btree" {
				for i := range ps {
					if c.Expired() {
						c.Incomplete("time budget reached in the Bigtable pair catalogue")
						return
					}
					for j := i + 1; j < len(ps); j++ {
						if !c.Thorough() && (len(ps[i].path) > 1 || len(ps[j].path) > 1) {
							continue
						}
						try(&c20BtCase{Engine: eng, RPC: rpc, Perts: []int{i, j}})
					}
				}
			}
			// stream failures
			if rpc == "ReadRows" || rpc == "ReadRowsAll" || rpc == "MutateRows" || rpc == "SampleRowKeys" {
				for _, fa := range []int{1, 2} {
					try(&c20BtCase{Engine: eng, RPC: rpc, FailAt: fa})
					for i := range ps {
						if len(ps[i].path) == 0 {
							try(&c20BtCase{Engine: eng, RPC: rpc, Perts: []int{i}, FailAt: fa})
						}
					}
				}
			}
		}
	}
	c.Bound("bigtable_single_perturbations", nPert/len(engines))
	// GCS
	cat := c20GcsCatalogue()
	for _, store := range []string{"mem", "file"} {
		for i := range cat {
			*item++
			if !c.Mine(*item) {
				continue
			}
			if c.Expired() {
				c.Incomplete("time budget reached in the GCS input catalogue")
				return
			}
			cs := cat[i]
			cs.Store = store
			cl, d := runC20GcsCase(c, &cs)
			c.Eval(1)
			c.Trace(1)
			c.Trans(1)
			c.State(fw.Hash("gcs", store, cs.Label))
			if cl != "" {
				sig := fmt.Sprintf("C20:input:gcs:%s:%s:%s", store, cl, gcsLabelClass(cs.Label))
				cp := cs
				what := cs.Req.String()
				if cs.Batch != nil {
					what = fmt.Sprintf("batch of %d", len(cs.Batch))
				}
				c.Violate(sig, d+"\n  case "+cs.Label+": "+what, c20InputCase{Gcs: &cp}, func() string {
					cc := cp
					cl2, _ := runC20GcsCase(c, &cc)
					if cl2 == "" {
						return ""
					}
					return fmt.Sprintf("C20:input:gcs:%s:%s:%s", store, cl2, gcsLabelClass(cc.Label))
				})
				c.Outcome("gcs:" + cl)
				continue
			}
			c.Outcome("gcs:ok")
			if *item%997 == 0 {
				c.Sample(map[string]interface{}{"store": store, "case": cs.Label, "request": cs.Req.String()})
			}
		}
	}
	c.Bound("gcs_catalogue_cases", len(cat))
}
