package checks

import (
	"fmt"
	"sort"
	"strings"
	"time"

	"verif/fw"
	"verif/gcs"
)

// C04 — GCS: preconditions gate mutations exactly; a failed one changes nothing.

func c04Tag(o *GOp) string {
	t := o.Kind
	if o.Kind == "Upload" {
		t += ":" + o.Proto
		if o.Between != nil {
			t += "+between:" + o.Between.Kind
		}
	}
	if len(o.Conds) > 0 {
		var ks []string
		for k, v := range o.Conds {
			ks = append(ks, strings.TrimPrefix(k, "if")+"="+v)
		}
		sort.Strings(ks)
		t += "{" + strings.Join(ks, ",") + "}"
	}
	for _, s := range o.Srcs {
		if s.Gen != "" {
			t += "[src@" + s.Gen + "]"
		}
	}
	return t
}

func c04Combos() []map[string]string {
	var out []map[string]string
	gm := []string{"", "cur", "other", "zero", "bad"}
	rest := []string{"", "cur", "other", "bad"}
	for _, a := range gm {
		for _, b := range rest {
			for _, cc := range rest {
				for _, d := range rest {
					m := map[string]string{}
					if a != "" {
						m["ifGenerationMatch"] = a
					}
					if b != "" {
						m["ifGenerationNotMatch"] = b
					}
					if cc != "" {
						m["ifMetagenerationMatch"] = cc
					}
					if d != "" {
						m["ifMetagenerationNotMatch"] = d
					}
					out = append(out, m)
				}
			}
		}
	}
	// values that are unparsable at the URL level (a broken percent escape, a ';' inside the pair), one parameter at a
	// time and next to a valid one: the request must be refused, not served as if the condition were absent
	for _, k := range []string{"ifGenerationMatch", "ifGenerationNotMatch", "ifMetagenerationMatch", "ifMetagenerationNotMatch"} {
		for _, v := range []string{"badesc", "badesc2", "badsemi"} {
			out = append(out, map[string]string{k: v})
			if k != "ifGenerationMatch" {
				out = append(out, map[string]string{k: v, "ifGenerationMatch": "cur"})
			}
		}
	}
	// "different from current" has more than one representative: a negative number, the largest one, the predecessor -
	// one parameter at a time and next to a condition that holds
	for _, k := range []string{"ifGenerationMatch", "ifGenerationNotMatch", "ifMetagenerationMatch", "ifMetagenerationNotMatch"} {
		for _, v := range []string{"neg", "huge", "below"} {
			out = append(out, map[string]string{k: v})
			if k != "ifGenerationMatch" {
				out = append(out, map[string]string{k: v, "ifGenerationMatch": "cur"})
			} else {
				out = append(out, map[string]string{k: v, "ifMetagenerationMatch": "cur"})
			}
		}
	}
	return out
}

func init() {
	fw.Register(&fw.Check{
		ID:    "C04",
		Level: "model_checking",
		Rule: "complete truth table executed on the real HTTP handler: all 320 combinations of the four condition parameters (each unset / equal to current / different; zero for ifGenerationMatch; unparsable) x object state {absent, fresh, patched, overwritten, deleted-and-recreated} x operation {upload media/multipart/resumable (conditions given at initiation, object changed between initiation and completion), patch, delete, compose destination, compose per-source generation} x store; " +
			"then the table for {upload, patch, delete} revisited from every history of a depth-3 BFS over {upload, patch, delete}; after every request the status and the complete state (content, metadata, generation, metageneration of every object) are compared with the model",
		Assumptions: []string{
			"a failed precondition may answer 412, or 304 when a failing condition is a not-match one; patch/delete of an absent object may answer 404 or the precondition status",
			"zero is exercised only for ifGenerationMatch (as the statement's space says)",
		},
		Run:    runC04,
		Replay: gcsReplay("C04", c04Tag),
		Budget: func(tier string) time.Duration {
			if tier == "thorough" {
				return 15 * time.Minute
			}
			return 70 * time.Second
		},
	})
}

func runC04(c *fw.Ctx) {
	combos := c04Combos()
	ct := gcs.ObjMeta{ContentType: "text/plain"}
	up := func(n, data string) GOp {
		return GOp{Kind: "Upload", Proto: "media", Bucket: "b", Name: n, Data: []byte(data), Meta: ct}
	}
	patch := func(n, body string) GOp { return GOp{Kind: "Patch", Bucket: "b", Name: n, PatchBody: []byte(body)} }
	base := []GOp{{Kind: "CreateBucket", Bucket: "b"}, up("other", "untouched"), up("s1", "S1-"), up("s2", "S2")}
	states := map[string][]GOp{
		"absent":      nil,
		"fresh":       {up("x", "v1")},
		"patched":     {up("x", "v1"), patch("x", `{"metadata":{"a":"1"}}`)},
		"overwritten": {up("x", "v1"), up("x", "v2-longer")},
		"recreated":   {up("x", "v1"), {Kind: "Delete", Bucket: "b", Name: "x"}, up("x", "v3")},
		"patched2":    {up("x", "v1"), patch("x", `{"contentType":"a/b"}`), patch("x", `{"metadata":{"z":"9"}}`)},
		"samecontent": {{Kind: "Upload", Proto: "multipart", Bucket: "b", Name: "x", Data: []byte("NEW"), Meta: gcs.ObjMeta{ContentType: "text/new", Metadata: map[string]string{"n": "1"}, Md5Hash: gcs.MD5b64([]byte("NEW"))}}},
	}
	stateNames := []string{"absent", "fresh", "patched", "overwritten", "recreated", "patched2", "samecontent"}
	mkOps := func(conds map[string]string) []GOp {
		newMeta := gcs.ObjMeta{ContentType: "text/new", Metadata: map[string]string{"n": "1"}}
		return []GOp{
			{Kind: "Upload", Proto: "media", Bucket: "b", Name: "x", Data: []byte("NEW"), Meta: gcs.ObjMeta{ContentType: "text/new"}, Conds: conds},
			{Kind: "Upload", Proto: "multipart", Bucket: "b", Name: "x", Data: []byte("NEW"), Meta: newMeta, Conds: conds},
			{Kind: "Upload", Proto: "resumable", Bucket: "b", Name: "x", Data: []byte("NEW"), Meta: newMeta, Conds: conds},
			{Kind: "Upload", Proto: "resumable", Bucket: "b", Name: "x", Data: []byte("NEW"), Meta: newMeta, Conds: conds, Chunks: []GChunk{{Lo: 0, Hi: 1, Total: -1}, {Lo: 1, Hi: 3, Total: 3}},
				Between: &GOp{Kind: "Upload", Proto: "media", Bucket: "b", Name: "x", Data: []byte("between"), Meta: ct}},
			{Kind: "Upload", Proto: "resumable", Bucket: "b", Name: "x", Data: []byte("NEW"), Meta: newMeta, Conds: conds,
				Between: &GOp{Kind: "Delete", Bucket: "b", Name: "x"}},
			{Kind: "Upload", Proto: "resumable", Bucket: "b", Name: "x", Data: []byte("NEW"), Meta: newMeta, Conds: conds,
				Between: &GOp{Kind: "Patch", Bucket: "b", Name: "x", PatchBody: []byte(`{"metadata":{"btw":"1"}}`)}},
			{Kind: "Patch", Bucket: "b", Name: "x", PatchBody: []byte(`{"metadata":{"p":"q"},"contentType":"text/patched"}`), Conds: conds},
			// a read-modify-write client sends back the whole resource it read earlier, stale version numbers included:
			// the preconditions are judged against the STORED object, never against the request body
			{Kind: "Patch", Bucket: "b", Name: "x", PatchBody: []byte(`{"metadata":{"rmw":"1"},"metageneration":"1","generation":"12345"}`), Conds: conds},
			{Kind: "Patch", Bucket: "b", Name: "x", PatchBody: []byte(`{"metadata":{"rmw":"2"},"metageneration":"2"}`), Conds: conds},
			{Kind: "Delete", Bucket: "b", Name: "x", Conds: conds},
			{Kind: "Compose", Bucket: "b", Name: "x", Srcs: []GSrc{{Name: "s1"}, {Name: "s2"}}, Meta: gcs.ObjMeta{ContentType: "text/composed"}, Conds: conds},
			// uploads that DECLARE the digest of their content (state "samecontent": the stored object already holds exactly
			// these bytes - a retried create must still be judged by its conditions, the emulator cannot know it is a retry)
			{Kind: "Upload", Proto: "multipart", Bucket: "b", Name: "x", Data: []byte("NEW"), Meta: gcs.ObjMeta{ContentType: "text/new", Metadata: map[string]string{"n": "1"}, Md5Hash: gcs.MD5b64([]byte("NEW"))}, Conds: conds},
			{Kind: "Upload", Proto: "resumable", Bucket: "b", Name: "x", Data: []byte("NEW"), Meta: gcs.ObjMeta{ContentType: "text/new", Md5Hash: gcs.MD5b64([]byte("NEW"))}, Conds: conds},
		}
	}
	var item int64
	stores := []string{"mem", "file"}
	for _, store := range stores {
		for _, sn := range stateNames {
			for ci, conds := range combos {
				for _, op := range mkOps(conds) {
					item++
					if !c.Mine(item) {
						continue
					}
					if c.Expired() {
						c.Incomplete("time budget reached in the truth table")
						return
					}
					ops := append(append(append([]GOp(nil), base...), states[sn]...), op)
					if ok, _ := tryGCS(c, "C04", gcsCase{Store: store, Ops: ops}, c04Tag); ok {
						c.Outcome(fmt.Sprintf("%s:%s", sn, op.Kind))
						if item%1499 == 0 {
							c.Sample(map[string]interface{}{"store": store, "state": sn, "combo": ci, "op": op.String()})
						}
					}
				}
			}
			// compose per-source generation match
			for _, srcs := range [][]GSrc{
				{{Name: "s1", Gen: "cur"}}, {{Name: "s1", Gen: "other"}}, {{Name: "s1", Gen: "cur"}, {Name: "s2", Gen: "other"}},
				{{Name: "s1"}, {Name: "s2", Gen: "cur"}}, {{Name: "x", Gen: "cur"}, {Name: "s1"}}, {{Name: "x", Gen: "other"}}, {{Name: "missing", Gen: "cur"}},
				// the same source more than once, with conditions that differ between the occurrences
				{{Name: "s1", Gen: "cur"}, {Name: "s1", Gen: "other"}}, {{Name: "s1"}, {Name: "s1", Gen: "other"}}, {{Name: "s1", Gen: "other"}, {Name: "s1", Gen: "cur"}},
				{{Name: "s1", Gen: "cur"}, {Name: "s1", Gen: "cur"}}, {{Name: "s1", Gen: "cur"}, {Name: "s2", Gen: "cur"}, {Name: "s1", Gen: "other"}},
				{{Name: "s2"}, {Name: "s1", Gen: "cur"}, {Name: "s2", Gen: "other"}}, {{Name: "x", Gen: "cur"}, {Name: "x", Gen: "other"}},
			} {
				for _, conds := range []map[string]string{nil, {"ifGenerationMatch": "cur"}, {"ifGenerationMatch": "other"}, {"ifGenerationMatch": "zero"}, {"ifMetagenerationMatch": "other"}} {
					item++
					if !c.Mine(item) {
						continue
					}
					op := GOp{Kind: "Compose", Bucket: "b", Name: "x", Srcs: srcs, Meta: gcs.ObjMeta{ContentType: "text/composed"}, Conds: conds}
					ops := append(append(append([]GOp(nil), base...), states[sn]...), op)
					tryGCS(c, "C04", gcsCase{Store: store, Ops: ops}, c04Tag)
				}
			}
		}
	}
	c.Bound("condition_combinations", len(combos))
	c.Bound("object_states", stateNames)
	// revisit {upload, patch, delete} x all combinations from every history of a depth-3 BFS
	hist := []GOp{up("x", "h"), patch("x", `{"metadata":{"h":"1"}}`), {Kind: "Delete", Bucket: "b", Name: "x"}}
	var histories [][]GOp
	var gen func(cur []GOp, d int)
	gen = func(cur []GOp, d int) {
		histories = append(histories, append([]GOp(nil), cur...))
		if d == 0 {
			return
		}
		for _, h := range hist {
			gen(append(cur, h), d-1)
		}
	}
	hd := 3
	gen(nil, hd)
	hstores := []string{"mem"}
	if c.Thorough() {
		hstores = stores
	}
	for _, store := range hstores {
		for _, h := range histories {
			for _, conds := range combos {
				all := mkOps(conds)
				for _, op := range []GOp{all[0], all[6], all[7], all[9]} {
					item++
					if !c.Mine(item) {
						continue
					}
					if c.Expired() {
						c.Incomplete("time budget reached in the history revisit")
						return
					}
					ops := append(append(append([]GOp(nil), base...), h...), op)
					tryGCS(c, "C04", gcsCase{Store: store, Ops: ops}, c04Tag)
				}
			}
		}
	}
	c.Bound("histories", len(histories))
}
