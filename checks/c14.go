package checks

import (
	"encoding/json"
	"fmt"
	"strings"
	"time"

	"verif/bt"
	"verif/fw"
)

// C14 — table, family and row-range admin changes exactly what it names.

const (
	parentI = "projects/p/instances/i"
	parentJ = "projects/p/instances/ij" // "…/i" is a proper prefix of it: listings must not leak across instances
	tblU    = parentI + "/tables/u"
	tblJT   = parentJ + "/tables/t"
)

func c14Tag(o *bt.Op) string {
	switch o.Kind {
	case "ModifyFamilies":
		s := "ModifyFamilies["
		for i, m := range o.Mods {
			if i > 0 {
				s += ","
			}
			s += m.Op
		}
		return s + "]"
	case "DropRowRange":
		if o.All {
			return "DropRowRange[all]"
		}
		return "DropRowRange[prefix]"
	}
	return o.Kind
}

func c14Alphabet() []bt.Op {
	mv := func(n int32) *bt.GC { return &bt.GC{Kind: "maxver", N: n} }
	age := &bt.GC{Kind: "maxage", AgeSec: 3600}
	un := &bt.GC{Kind: "union", Subs: []*bt.GC{mv(2), age}}
	mod := func(mods ...bt.Mod) bt.Op { return bt.Op{Kind: "ModifyFamilies", Table: tblT, Mods: mods} }
	put := func(t, key string, fams ...string) bt.Op {
		var ms []bt.Mut
		for _, f := range fams {
			ms = append(ms, mset(f, "c", 1000, "v-"+key))
		}
		return bt.Op{Kind: "MutateRow", Table: t, Key: []byte(key), Muts: ms}
	}
	return []bt.Op{
		{Kind: "CreateTable", Parent: parentI, TableID: "t", Fams: map[string]*bt.GC{"f": mv(1), "g": nil}},
		put(tblT, "a", "f", "g"),
		put(tblT, "a\xffb", "f"),
		put(tblT, "ab", "g"),
		put(tblT, "\xff", "f"),
		// other kinds of write naming a family: rejected as a whole once that family has been dropped
		{Kind: "MutateRow", Table: tblT, Key: []byte("a"), Muts: []bt.Mut{mset("g", "c2", 2000, "w"), mdelfam("f")}},
		{Kind: "MutateRow", Table: tblT, Key: []byte("a"), Muts: []bt.Mut{mset("f", "c2", 2000, "w"), mdelcol("g", "c")}},
		{Kind: "DropRowRange", Table: tblT, Prefix: []byte("a")},
		{Kind: "DropRowRange", Table: tblT, Prefix: []byte("a\xff")},
		{Kind: "DropRowRange", Table: tblT, Prefix: []byte("ab")},
		{Kind: "DropRowRange", Table: tblT, Prefix: []byte("\xff")},
		{Kind: "DropRowRange", Table: tblT, Prefix: []byte("zz")},
		{Kind: "DropRowRange", Table: tblT, All: true},
		{Kind: "DropRowRange", Table: tblT, AllFalse: true},
		mod(bt.Mod{ID: "f", Op: "drop"}),
		mod(bt.Mod{ID: "g", Op: "drop"}),
		mod(bt.Mod{ID: "h", Op: "create", GC: age}),
		mod(bt.Mod{ID: "f", Op: "update", GC: un}),
		mod(bt.Mod{ID: "h", Op: "create"}, bt.Mod{ID: "f", Op: "drop"}),
		mod(bt.Mod{ID: "f", Op: "drop"}, bt.Mod{ID: "f", Op: "create", GC: mv(3)}),
		mod(bt.Mod{ID: "h", Op: "create"}, bt.Mod{ID: "g", Op: "create"}),                // fails at position 1 when g exists
		mod(bt.Mod{ID: "g", Op: "drop"}, bt.Mod{ID: "nofam", Op: "drop"}),                // fails at position 1
		mod(bt.Mod{ID: "g", Op: "update", GC: mv(5)}, bt.Mod{ID: "nofam", Op: "update"}), // fails at position 1
		mod(bt.Mod{ID: "nofam", Op: "update", GC: mv(1)}),
		put(tblT, "n", "h"),
		{Kind: "DeleteTable", Table: tblT},
		{Kind: "CreateTable", Parent: parentI, TableID: "t"}, // (re-)create without families
		{Kind: "CreateTable", Parent: parentI, TableID: "t", NoTable: true},
		{Kind: "CreateTable", Parent: parentJ, TableID: "t", Fams: map[string]*bt.GC{"f": nil}},
		put(tblJT, "a", "f"),
		{Kind: "DeleteTable", Table: tblJT},
		{Kind: "DropRowRange", Table: tblJT, Prefix: []byte("a")},
		{Kind: "CreateTable", Parent: parentI, TableID: "u", Fams: map[string]*bt.GC{"f": nil, "g": un}},
		put(tblU, "a", "f", "g"),
		{Kind: "DropRowRange", Table: tblU, All: true},
		{Kind: "GetTable", Table: tblT},
		{Kind: "ReadRows", Table: tblT},
		{Kind: "GenToken", Table: tblT},
		{Kind: "CheckConsistency", Table: tblT, Token: "TokenFor-" + tblT},
		{Kind: "RMW", Table: tblT, Key: []byte("a"), Rules: []bt.Rule{{Fam: "g", Qual: []byte("c"), Append: []byte("+")}}},
		{Kind: "CheckAndMutate", Table: tblT, Key: []byte("ab"), TrueM: []bt.Mut{mset("f", "c", 2000, "cam")}},
		{Kind: "MutateRows", Table: tblT, Entries: []bt.Entry{{Key: []byte("a"), Muts: []bt.Mut{mset("f", "c", 3000, "x")}}, {Key: []byte("zz"), Muts: []bt.Mut{mset("g", "c", 3000, "y")}}}},
		{Kind: "SampleRowKeys", Table: tblT},
	}
}

func init() {
	fw.Register(&fw.Check{
		ID:    "C14",
		Level: "model_checking",
		Rule: "explicit-state BFS (dedup on model state + raw dump) over sequences of admin requests (create/get/delete table over two parents, single and multi-modification ModifyColumnFamilies including lists failing at position k, DropRowRange with adversarial prefixes and all) interleaved with data requests; " +
			"after every request the response, the table registry (GetTable/ListTables of every parent) and a complete read of every table are compared with the reference model",
		Assumptions: []string{"a modification without an operation is not exercised", "any non-OK status counts as failure except NotFound/AlreadyExists which are required exactly"},
		Run:         runC14,
		Replay:      func(c *fw.Ctx, raw json.RawMessage) (string, string) { return replaySeqRaw(c, "C14", raw, c14Tag) },
		Budget: func(tier string) time.Duration {
			if tier == "thorough" {
				return 20 * time.Minute
			}
			return 180 * time.Second
		},
	})
}

func runC14(c *fw.Ctx) {
	alpha := c14Alphabet()
	type plan struct {
		engine string
		depth  int
	}
	plans := []plan{{"btree", 5}, {"mem", 4}}
	if c.Thorough() {
		plans = []plan{{"btree", 7}, {"mem", 5}, {"disk", 4}}
	}
	// catalogue of modification lists: every ordered pair and triple over {create existing, create new, drop existing,
	// drop unknown, update existing, update unknown, drop f, create f again} - all-or-nothing and "exactly the named
	// families" must hold for every list, whatever position fails and whichever family a later element re-uses
	mv := func(n int32) *bt.GC { return &bt.GC{Kind: "maxver", N: n} }
	elems := []bt.Mod{{ID: "g", Op: "create", GC: mv(7)}, {ID: "h", Op: "create", GC: mv(2)}, {ID: "g", Op: "drop"}, {ID: "nofam", Op: "drop"},
		{ID: "g", Op: "update", GC: mv(5)}, {ID: "nofam", Op: "update", GC: mv(1)}, {ID: "f", Op: "drop"}, {ID: "f", Op: "create", GC: mv(4)}, {ID: "h", Op: "update", GC: mv(9)}, {ID: "h", Op: "drop"},
		{ID: "f", Op: "update"}} // an update to "no rule" removes the rule the family had
	var lists [][]bt.Mod
	for _, a := range elems {
		for _, b := range elems {
			lists = append(lists, []bt.Mod{a, b})
			for _, d := range elems {
				lists = append(lists, []bt.Mod{a, b, d})
			}
		}
	}
	for _, p := range plans {
		p := p
		var item int64
		b := &btSeq{ID: "C14", Engine: p.engine, Alphabet: alpha, Depth: p.depth, Dedup: true, Tag: c14Tag}
		// from the populated table (create + rows in f and g): state reached by the first three requests of the alphabet
		base := []bt.Op{alpha[0], alpha[1], alpha[3]}
		for _, l := range lists {
			item++
			if !c.Mine(item) {
				continue
			}
			if c.Expired() {
				c.Incomplete("time budget reached in the modification-list catalogue")
				break
			}
			ops := append(append([]bt.Op(nil), base...), bt.Op{Kind: "ModifyFamilies", Table: tblT, Mods: l},
				bt.Op{Kind: "MutateRow", Table: tblT, Key: []byte("z"), Muts: []bt.Mut{mset("g", "c", 1000, "after"), mset("f", "c", 1000, "after")}})
			m, cl, at, hh := runSeq(c, p.engine, nil, ops, true)
			c.Eval(1)
			c.Trace(1)
			c.Trans(int64(len(ops)))
			if m != "" {
				t := "setup"
				if at >= 0 {
					t = c14Tag(&ops[at])
				}
				sc := seqCase{Engine: p.engine, Ops: ops}
				c.Violate(fmt.Sprintf("C14:%s:%s:%s", p.engine, cl, t), m+"\n  sequence: "+bt.OpsString(ops), sc, func() string {
					s, _ := replaySeq(c, "C14", sc, c14Tag)
					return s
				})
				continue
			}
			if cl != "ambiguous" {
				c.State(hh)
			}
		}
		// a table longer than the batching constants of the engines and of the service (batches of ~100 and ~1000
		// rows): every request that removes many rows at once, then the complete state (reads and stored keys)
		long := []bt.Op{alpha[0]}
		const nLong = 2500
		// (the first request carries 1 250 entries - more than any per-request batching is likely to be sized for -
		// the others 125 each)
		for lo := 0; lo < nLong; {
			step := 125
			if lo == 0 {
				step = 1250
			}
			var es []bt.Entry
			for i := lo; i < lo+step; i++ {
				fams := []string{"f"}
				if i%3 == 0 {
					fams = []string{"g"} // rows that live in g only: they disappear when g is dropped
				} else if i%3 == 1 {
					fams = []string{"f", "g"}
				}
				var ms []bt.Mut
				for _, f := range fams {
					ms = append(ms, mset(f, "c", 1000, fmt.Sprintf("v%d", i)))
				}
				es = append(es, bt.Entry{Key: []byte(fmt.Sprintf("r%04d", i)), Muts: ms})
			}
			long = append(long, bt.Op{Kind: "MutateRows", Table: tblT, Entries: es})
			lo += step
		}
		for _, fin := range [][]bt.Op{
			{{Kind: "DropRowRange", Table: tblT, All: true}},
			{{Kind: "DropRowRange", Table: tblT, Prefix: []byte("r1")}},
			{{Kind: "DropRowRange", Table: tblT, Prefix: []byte("r")}},
			{{Kind: "DropRowRange", Table: tblT, Prefix: []byte("r24")}},
			{{Kind: "DropRowRange", Table: tblT, Prefix: []byte("r0")}, {Kind: "DropRowRange", Table: tblT, All: true}},
			{{Kind: "ModifyFamilies", Table: tblT, Mods: []bt.Mod{{ID: "g", Op: "drop"}}}},
			{{Kind: "ModifyFamilies", Table: tblT, Mods: []bt.Mod{{ID: "f", Op: "drop"}, {ID: "g", Op: "drop"}}}},
			{{Kind: "DeleteTable", Table: tblT}, alpha[0]},
		} {
			item++
			if !c.Mine(item) {
				continue
			}
			if c.Expired() {
				c.Incomplete("time budget reached in the long-table pass")
				break
			}
			ops := append(append([]bt.Op(nil), long...), fin...)
			ops = append(ops, bt.Op{Kind: "MutateRow", Table: tblT, Key: []byte("r1500"), Muts: []bt.Mut{mset("f", "c", 2000, "after")}})
			m, cl, at, hh := runSeq(c, p.engine, nil, ops, true)
			c.Eval(1)
			c.Trace(1)
			c.Trans(int64(len(ops)))
			if m != "" {
				t := "setup"
				if at >= 0 {
					t = c14Tag(&ops[at])
				}
				if len(m) > 1500 {
					m = m[:1500] + "…"
				}
				sc := seqCase{Engine: p.engine, Ops: ops}
				c.Violate(fmt.Sprintf("C14:%s:long:%s:%s", p.engine, cl, t), m+"\n  sequence: a table of 2500 rows, then "+bt.OpsString(fin), sc, func() string {
					s, _ := replaySeq(c, "C14", sc, c14Tag)
					return strings.Replace(s, "C14:"+p.engine+":", "C14:"+p.engine+":long:", 1)
				})
				continue
			}
			c.State(hh)
			c.Outcome("long-table:" + fin[0].Kind)
		}
		b.Run(c)
		c.Bound(p.engine+"_depth", p.depth)
	}
	c.Bound("long_table_rows", 2500)
	c.Bound("modification_lists", len(lists))
	c.Bound("alphabet", len(alpha))
}
