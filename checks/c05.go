package checks

import (
	"encoding/json"
	"fmt"
	"strings"
	"time"

	"verif/bt"
	"verif/fw"
)

// C05 — row filters compute the documented filter semantics.

func filterShape(f *bt.Filter) string {
	if f == nil {
		return "nil"
	}
	bad := ""
	if bt.StaticInvalid(f) && f.Kind != "chain" && f.Kind != "interleave" && f.Kind != "cond" {
		bad = "!"
	}
	switch f.Kind {
	case "chain", "interleave":
		var ss []string
		for _, s := range f.Subs {
			ss = append(ss, filterShape(s))
		}
		return f.Kind + "(" + strings.Join(ss, ",") + ")"
	case "cond":
		return "cond(" + filterShape(f.Pred) + "?" + filterShape(f.True) + ":" + filterShape(f.False) + ")"
	}
	return f.Kind + bad
}

func c05Tag(o *bt.Op) string {
	if o.Kind == "ReadRows" {
		return "ReadRows:" + filterShape(o.Filter)
	}
	return o.Kind
}

func re(kind, pat string) *bt.Filter     { return &bt.Filter{Kind: kind, S: []byte(pat)} }
func fn(kind string, n int32) *bt.Filter { return &bt.Filter{Kind: kind, N: n} }

// c05Leaves: every leaf filter over its boundary arguments.
func c05Leaves() []*bt.Filter {
	var out []*bt.Filter
	out = append(out, &bt.Filter{Kind: "pass", B: true}, &bt.Filter{Kind: "pass"}, &bt.Filter{Kind: "block", B: true}, &bt.Filter{Kind: "block"})
	for _, p := range []string{"r1", "r.*", "r1|r3", "(", "r", "k\xff", "k\\C", ".*", "", "n.k", "n\\Ck", "n.*"} {
		out = append(out, re("key_re", p))
	}
	for _, p := range []string{"f", "f|g", ".*", "(", "", "g.*", "."} {
		out = append(out, re("fam_re", p))
	}
	for _, p := range []string{"a", "a|b", ".*", "(", "", "\xff\x00", "\xff\\C", ".", "a*", "q.", "q\\C", "\\C*"} {
		out = append(out, re("qual_re", p))
	}
	for _, p := range []string{"x.", "x0|y", ".*", "", "bin\x80", "(", "x", "abc|z", "(a|b)c*", "\\C*", "a.b", "a\\Cb", ".", "\\C"} {
		out = append(out, re("val_re", p))
	}
	ends := []struct {
		k int
		v string
	}{{0, ""}, {1, "a"}, {2, "a"}, {1, "b"}, {2, "b"}, {1, ""}, {2, "\xff"}}
	for _, fam := range []string{"f", "g", "nofam"} {
		for _, s := range ends {
			for _, e := range ends {
				out = append(out, &bt.Filter{Kind: "col_range", Fam: fam, SK: s.k, Start: []byte(s.v), EK: e.k, End: []byte(e.v)})
			}
		}
	}
	vends := []struct {
		k int
		v string
	}{{0, ""}, {1, "x"}, {2, "x"}, {1, "y"}, {2, "y"}, {1, "x0"}, {2, ""}}
	for _, s := range vends {
		for _, e := range vends {
			out = append(out, &bt.Filter{Kind: "val_range", SK: s.k, Start: []byte(s.v), EK: e.k, End: []byte(e.v)})
		}
	}
	for _, t0 := range []int64{0, 1000, 2000, 1500, 3000} {
		for _, t1 := range []int64{0, 1000, 2000, 1500, 3000} {
			out = append(out, &bt.Filter{Kind: "ts_range", T0: t0, T1: t1})
		}
	}
	// bounds at the far end of the timestamp domain (reversed-timestamp idiom, "maximum" as an infinite end)
	for _, t := range []int64{bt.MaxTS, bt.MaxTS - 1000, 9_223_372_036_855_000, 4_611_686_018_427_387_000} {
		out = append(out, &bt.Filter{Kind: "ts_range", T0: 1000, T1: t}, &bt.Filter{Kind: "ts_range", T0: t}, &bt.Filter{Kind: "ts_range", T0: t - 1000, T1: t})
	}
	for _, n := range []int32{-1, 0, 1, 2, 3, 4, 100} {
		out = append(out, fn("row_limit", n), fn("row_offset", n))
	}
	for _, n := range []int32{-1, 0, 1, 2} {
		out = append(out, fn("col_limit", n))
	}
	out = append(out, &bt.Filter{Kind: "strip"}, re("label", "lbl"))
	out = append(out, &bt.Filter{Kind: "chain"}, &bt.Filter{Kind: "chain", Subs: []*bt.Filter{{Kind: "pass", B: true}}},
		&bt.Filter{Kind: "interleave"}, &bt.Filter{Kind: "interleave", Subs: []*bt.Filter{{Kind: "pass", B: true}}})
	return out
}

// c05Basis20: the leaf basis for exhaustive depth-2 composition.
func c05Basis20() []*bt.Filter {
	return []*bt.Filter{
		{Kind: "pass", B: true}, {Kind: "block", B: true},
		re("key_re", "r1|r3"), re("fam_re", "f"), re("fam_re", "g"), re("qual_re", "a"), re("val_re", "x.*"),
		{Kind: "col_range", Fam: "f", SK: 1, Start: []byte("b")},
		{Kind: "val_range", SK: 2, Start: []byte("x"), EK: 1, End: []byte("y")},
		{Kind: "ts_range", T0: 1000, T1: 2000}, {Kind: "ts_range", T0: 2000},
		fn("row_limit", 1), fn("row_limit", 2), fn("row_offset", 1), fn("row_offset", 2), fn("col_limit", 1),
		{Kind: "strip"}, re("label", "lbl"),
		fn("row_limit", -1), re("val_re", "("), fn("row_limit", 0),
	}
}

func c05Basis8() []*bt.Filter {
	return []*bt.Filter{
		{Kind: "pass", B: true}, {Kind: "block", B: true}, re("fam_re", "f"), re("qual_re", "a"),
		fn("row_limit", 1), fn("row_offset", 1), fn("col_limit", 1), {Kind: "strip"},
	}
}

func c05Tables() [][]bt.Op {
	T := func(key string, muts ...bt.Mut) bt.Op {
		return bt.Op{Kind: "MutateRow", Table: tblT, Key: []byte(key), Muts: muts}
	}
	t1 := append(setupT(),
		T("r1", mset("f", "a", 2000, "x1"), mset("f", "a", 1000, "x0"), mset("f", "b", 1000, "y"), mset("g", "a", 1000, "z")),
		T("r2", mset("f", "a", 1000, "x"), mset("g", "\xff\x00", 3000, "bin\x80"), mset("g", "\xff\x00", 1000, "")),
		T("r3", mset("g", "c", 2000, "abc")),
		T("k\xff", mset("f", "", 0, "x")),
	)
	// family g stored before family f in the row; three versions; qualifier that needs sorting
	t2 := append(setupT(),
		T("r1", mset("g", "b", 1000, "y"), mset("g", "a", 1000, "x"), mset("f", "a", 3000, "x3"), mset("f", "a", 2000, "x2"), mset("f", "a", 1000, "x1")),
		T("r2", mset("f", "b", 2000, "y")),
	)
	t3 := append(setupT(), T("r1", mset("f", "a", 1000, "x")))
	// one family, several columns and versions: positional filters after an interleave depend on the
	// (documented) qualifier order of the merged row
	t4 := append(setupT(),
		T("r1", mset("f", "a", 2000, "a2"), mset("f", "a", 1000, "a1"), mset("f", "b", 1000, "b1"), mset("f", "c", 2000, "c2"), mset("f", "c", 1000, "c1"), mset("f", "d", 1000, "d1")),
		T("r2", mset("f", "c", 1000, "x"), mset("f", "a", 1000, "y")),
	)
	// new-line bytes in a row key, a qualifier and values: "." does not match them (RE2 without the s flag), "\C" does
	t5 := append(setupT(),
		T("n\nk", mset("f", "q\n", 1000, "a\nb"), mset("f", "qx", 1000, "\n"), mset("g", "q", 1000, "axb")),
		T("nxk", mset("f", "q\n", 1000, "a\nb"), mset("f", "a", 2000, ""), mset("g", "a", 1000, "x\n")),
	)
	return [][]bt.Op{t1, t2, t3, setupT(), t4, t5}
}

func init() {
	fw.Register(&fw.Check{
		ID:    "C05",
		Level: "model_checking",
		Rule: "product enumeration executed on the real service: every leaf filter over its boundary arguments, every chain/interleave of 2 and every condition(p,t,f) over a 21-leaf basis, depth-3 compositions over an 8-leaf basis, row-sample under every coin sequence; each as a whole-table ReadRows on several multi-row/multi-family/multi-version tables and engines; " +
			"oracle: independent evaluator over the flat cell list with its own regex matcher; distinct = distinct filter tree x table x engine",
		Assumptions: []string{
			"family order inside a row is what an unfiltered read of that row returns; cases whose answer depends on an order the documented semantics leave open are detected by the model and skipped (counted as ambiguous_skipped)",
			"an invalid argument must be rejected with InvalidArgument when lazy left-to-right evaluation reaches it on some row; if it is never reached either InvalidArgument or the model result is accepted",
			"label validity and the sink filter are outside the statement and not exercised",
		},
		Run:    runC05,
		Replay: func(c *fw.Ctx, raw json.RawMessage) (string, string) { return replaySeqRaw(c, "C05", raw, c05Tag) },
		Budget: func(tier string) time.Duration {
			if tier == "thorough" {
				return 15 * time.Minute
			}
			return 60 * time.Second
		},
	})
}

func c05Filters(thorough bool) []*bt.Filter {
	var fs []*bt.Filter
	fs = append(fs, c05Leaves()...)
	b20 := c05Basis20()
	for _, a := range b20 {
		for _, b := range b20 {
			fs = append(fs, &bt.Filter{Kind: "chain", Subs: []*bt.Filter{a, b}})
			fs = append(fs, &bt.Filter{Kind: "interleave", Subs: []*bt.Filter{a, b}})
		}
	}
	b8 := c05Basis8()
	opt := append([]*bt.Filter{nil}, b8...)
	for _, p := range b20 {
		for _, t := range opt {
			for _, f := range opt {
				fs = append(fs, &bt.Filter{Kind: "cond", Pred: p, True: t, False: f})
			}
		}
	}
	for _, a := range b8 {
		for _, b := range b8 {
			for _, d := range b8 {
				fs = append(fs, &bt.Filter{Kind: "chain", Subs: []*bt.Filter{a, b, d}})
				fs = append(fs, &bt.Filter{Kind: "interleave", Subs: []*bt.Filter{a, b, d}})
				fs = append(fs, &bt.Filter{Kind: "chain", Subs: []*bt.Filter{a, {Kind: "interleave", Subs: []*bt.Filter{b, d}}}})
				fs = append(fs, &bt.Filter{Kind: "interleave", Subs: []*bt.Filter{a, {Kind: "chain", Subs: []*bt.Filter{b, d}}}})
				fs = append(fs, &bt.Filter{Kind: "chain", Subs: []*bt.Filter{{Kind: "interleave", Subs: []*bt.Filter{a, b}}, d}})
				fs = append(fs, &bt.Filter{Kind: "cond", Pred: &bt.Filter{Kind: "chain", Subs: []*bt.Filter{a, b}}, True: d})
				fs = append(fs, &bt.Filter{Kind: "cond", Pred: a, True: &bt.Filter{Kind: "chain", Subs: []*bt.Filter{b, d}}, False: &bt.Filter{Kind: "pass", B: true}})
				if thorough {
					fs = append(fs, &bt.Filter{Kind: "cond", Pred: &bt.Filter{Kind: "interleave", Subs: []*bt.Filter{a, b}}, False: d})
					fs = append(fs, &bt.Filter{Kind: "cond", Pred: &bt.Filter{Kind: "cond", Pred: a, True: b}, True: d, False: &bt.Filter{Kind: "strip"}})
				}
			}
		}
	}
	// depth 3 over the whole 21-leaf basis (both tiers)
	for _, a := range b20 {
		for _, b := range b20 {
			for _, d := range b20 {
				fs = append(fs, &bt.Filter{Kind: "chain", Subs: []*bt.Filter{a, b, d}})
				fs = append(fs, &bt.Filter{Kind: "interleave", Subs: []*bt.Filter{a, b, d}})
				fs = append(fs, &bt.Filter{Kind: "cond", Pred: a, True: b, False: d})
				if thorough {
					fs = append(fs, &bt.Filter{Kind: "chain", Subs: []*bt.Filter{{Kind: "interleave", Subs: []*bt.Filter{a, b}}, d}})
				}
			}
		}
	}
	if thorough {
		// depth 4 over the 8-leaf basis
		for _, a := range b8 {
			for _, b := range b8 {
				for _, d := range b8 {
					for _, e := range b8 {
						fs = append(fs, &bt.Filter{Kind: "chain", Subs: []*bt.Filter{a, {Kind: "interleave", Subs: []*bt.Filter{b, {Kind: "chain", Subs: []*bt.Filter{d, e}}}}}})
						fs = append(fs, &bt.Filter{Kind: "cond", Pred: &bt.Filter{Kind: "chain", Subs: []*bt.Filter{a, b}}, True: &bt.Filter{Kind: "interleave", Subs: []*bt.Filter{d, e}}, False: e})
						fs = append(fs, &bt.Filter{Kind: "interleave", Subs: []*bt.Filter{{Kind: "chain", Subs: []*bt.Filter{a, b}}, {Kind: "cond", Pred: d, True: e}}})
					}
				}
			}
		}
	}
	// interleave branches that reach columns out of qualifier order, followed by positional filters
	bq := []*bt.Filter{re("qual_re", "a"), re("qual_re", "b"), re("qual_re", "c"), re("qual_re", "d"), re("qual_re", "c|d"), fn("row_offset", 2), fn("row_offset", 4), fn("row_limit", 1),
		{Kind: "col_range", Fam: "f", SK: 1, Start: []byte("c")}, {Kind: "ts_range", T0: 2000}, re("val_re", "a1|d1")}
	pos := []*bt.Filter{fn("row_limit", 1), fn("row_limit", 2), fn("row_limit", 3), fn("row_offset", 1), fn("row_offset", 2), fn("col_limit", 1)}
	for _, a := range bq {
		for _, b := range bq {
			for _, d := range pos {
				fs = append(fs, &bt.Filter{Kind: "chain", Subs: []*bt.Filter{{Kind: "interleave", Subs: []*bt.Filter{a, b}}, d}})
			}
			for _, e := range bq[:5] {
				fs = append(fs, &bt.Filter{Kind: "chain", Subs: []*bt.Filter{{Kind: "interleave", Subs: []*bt.Filter{a, b, e}}, fn("row_limit", 2)}})
			}
		}
	}
	return fs
}

func runC05(c *fw.Ctx) {
	engines := []string{"btree", "mem"}
	if c.Thorough() {
		engines = []string{"btree", "mem", "disk"}
	}
	filters := c05Filters(c.Thorough())
	tables := c05Tables()
	var item int64
	const chunk = 400
	for _, eng := range engines {
		for ti, setup := range tables {
			for lo := 0; lo < len(filters); lo += chunk {
				item++
				if !c.Mine(item) {
					continue
				}
				if c.Expired() {
					c.Incomplete("time budget reached")
					return
				}
				hi := lo + chunk
				if hi > len(filters) {
					hi = len(filters)
				}
				_ = ti
				readBatch(c, "C05", eng, setup, c05Tag, func(emit func(bt.Op)) {
					for _, f := range filters[lo:hi] {
						emit(bt.Op{Kind: "ReadRows", Table: tblT, Filter: f})
					}
				})
			}
			// filters that are invalid only on SOME rows x row sets of several disjoint ranges / keys: the error of a
			// row in an earlier range must not be forgotten when a later range is scanned
			item++
			if c.Mine(item) {
				bad := []*bt.Filter{re("val_re", "("), fn("row_limit", -1), {Kind: "pass"}, {Kind: "ts_range", T0: 1500}}
				var failSome []*bt.Filter
				for _, b := range bad {
					for _, k := range []string{"r1", "r2", "r3", "r1|r2"} {
						failSome = append(failSome,
							&bt.Filter{Kind: "chain", Subs: []*bt.Filter{re("key_re", k), b}},
							&bt.Filter{Kind: "cond", Pred: re("key_re", k), True: b, False: &bt.Filter{Kind: "pass", B: true}},
							&bt.Filter{Kind: "cond", Pred: re("key_re", k), True: &bt.Filter{Kind: "strip"}, False: b},
							&bt.Filter{Kind: "interleave", Subs: []*bt.Filter{{Kind: "pass", B: true}, {Kind: "chain", Subs: []*bt.Filter{re("key_re", k), b}}}})
					}
				}
				one := func(k string) bt.Range { return bt.Range{SK: 1, S: []byte(k), EK: 1, E: []byte(k)} }
				rowsets := []bt.Op{
					{Kind: "ReadRows", Table: tblT, HasRowSet: true, Ranges: []bt.Range{one("r1"), one("r3")}},
					{Kind: "ReadRows", Table: tblT, HasRowSet: true, Ranges: []bt.Range{one("r1"), one("r2"), one("r3")}},
					{Kind: "ReadRows", Table: tblT, HasRowSet: true, Ranges: []bt.Range{{EK: 2, E: []byte("r2")}, {SK: 2, S: []byte("r2")}}},
					{Kind: "ReadRows", Table: tblT, HasRowSet: true, Keys: [][]byte{[]byte("r3"), []byte("r1")}, Ranges: []bt.Range{one("r2")}},
					{Kind: "ReadRows", Table: tblT, HasRowSet: true, Ranges: []bt.Range{one("r1"), one("r3")}, Limit: 1},
					{Kind: "ReadRows", Table: tblT, HasRowSet: true, Ranges: []bt.Range{one("r2"), {SK: 1, S: []byte("r3")}}, Limit: 2},
				}
				readBatch(c, "C05", eng, setup, c05Tag, func(emit func(bt.Op)) {
					for _, f := range failSome {
						for _, rs := range rowsets {
							o := rs
							o.Filter = f
							emit(o)
						}
					}
				})
			}
			// row sample: each row entirely or not at all, under every coin sequence
			item++
			if c.Mine(item) {
				nrows := 4
				readBatch(c, "C05", eng, setup, c05Tag, func(emit func(bt.Op)) {
					for _, p := range []float64{-0.1, 0, 0.5, 1, 1.5, 0.000001, 0.999999} {
						for mask := 0; mask < 1<<nrows; mask++ {
							coins := make([]bool, nrows)
							for i := range coins {
								coins[i] = mask&(1<<i) != 0
							}
							emit(bt.Op{Kind: "ReadRows", Table: tblT, Filter: &bt.Filter{Kind: "sample", P: p}, Coins: coins})
							if p == 0.5 {
								emit(bt.Op{Kind: "ReadRows", Table: tblT, Coins: coins, Filter: &bt.Filter{Kind: "chain", Subs: []*bt.Filter{re("fam_re", "f"), {Kind: "sample", P: p}}}})
								emit(bt.Op{Kind: "ReadRows", Table: tblT, Coins: coins, Filter: &bt.Filter{Kind: "chain", Subs: []*bt.Filter{{Kind: "sample", P: p}, fn("row_limit", 1)}}})
								emit(bt.Op{Kind: "ReadRows", Table: tblT, Coins: coins, Filter: &bt.Filter{Kind: "cond", Pred: &bt.Filter{Kind: "sample", P: p}, True: &bt.Filter{Kind: "strip"}, False: re("label", "no")}})
							}
						}
					}
				})
			}
		}
	}
	c.Bound("filters", len(filters))
	c.Bound("tables", len(tables))
	c.Bound("engines", engines)
	_ = fmt.Sprint
}
