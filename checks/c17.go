package checks

import (
	"encoding/json"
	"fmt"
	"os"
	"path/filepath"
	"time"

	"verif/bt"
	"verif/fw"
	"verif/shim/vtime"
)

// C17 — the choice of storage engine is unobservable to clients (pairwise differential).

type diffCase struct {
	Engines []string `json:"engines"`
	Ops     []bt.Op  `json:"ops"`
}

// c17LastCode: status of the last request executed by a diffWorld (first engine).
var c17LastCode string

type diffWorld struct {
	engines []string
	drvs    []*bt.Driver
	dirs    []string
}

func newDiffWorld(c *fw.Ctx, engines []string) *diffWorld {
	w := &diffWorld{engines: engines}
	vtime.SetVirtual(1_700_000_000_000_000_000, 1)
	for _, e := range engines {
		dir := ""
		if e == "disk" {
			btDirSeq++
			dir = filepath.Join(c.Scratch, fmt.Sprintf("btd%d", btDirSeq))
			_ = os.MkdirAll(dir, 0o777)
		}
		w.dirs = append(w.dirs, dir)
		w.drvs = append(w.drvs, bt.NewDriver(e, dir))
	}
	return w
}

func (w *diffWorld) Close() {
	for i, d := range w.drvs {
		d.Close()
		if w.dirs[i] != "" {
			_ = os.RemoveAll(w.dirs[i])
		}
	}
}

// respKey renders everything a client can observe of a response, positionally (including the
// order of families inside a row, the number of stream messages and the error text).
func respKey(r bt.Resp) string {
	r.Msg = "" // error texts may legitimately mention engine internals; the status code must agree
	b, _ := json.Marshal(r)
	return string(b)
}

// step applies the request to every engine and compares all responses with the first one; then
// compares a complete read of every table.
func (w *diffWorld) step(o *bt.Op, check bool) (string, string) {
	var first bt.Resp
	for i, d := range w.drvs {
		got := d.Apply(o)
		if i == 0 {
			c17LastCode = got.Code
		}
		if !check {
			continue
		}
		if got.Panic != "" {
			return fmt.Sprintf("%s: panic in %s: %s", w.engines[i], o.String(), got.Panic), w.engines[i] + ":panic"
		}
		if i == 0 {
			first = got
			continue
		}
		if a, b := respKey(first), respKey(got); a != b {
			return fmt.Sprintf("response of %s differs:\n   %-6s %s\n   %-6s %s", o.String(), w.engines[0], a, w.engines[i], b), w.engines[0] + "-vs-" + w.engines[i] + ":resp"
		}
	}
	if !check {
		return "", ""
	}
	// full state: every table the first engine has
	for _, t := range w.drvs[0].S.VerifDump() {
		rd := &bt.Op{Kind: "ReadRows", Table: t.Name}
		var f string
		for i, d := range w.drvs {
			k := respKey(d.Apply(rd))
			if i == 0 {
				f = k
			} else if k != f {
				return fmt.Sprintf("after %s a full read of %s differs:\n   %-6s %s\n   %-6s %s", o.String(), t.Name, w.engines[0], f, w.engines[i], k), w.engines[0] + "-vs-" + w.engines[i] + ":state"
			}
		}
	}
	return "", ""
}

func runDiff(c *fw.Ctx, engines []string, ops []bt.Op, checkAll bool) (string, string, int, uint64) {
	w := newDiffWorld(c, engines)
	defer w.Close()
	for i := range ops {
		if m, cl := w.step(&ops[i], checkAll || i == len(ops)-1); m != "" {
			return m, cl, i, 0
		}
	}
	return "", "", -1, fw.Hash(w.drvs[0].Dump())
}

func c17Tag(o *bt.Op) string {
	switch o.Kind {
	case "ReadRows":
		return c05Tag(o)
	case "ModifyFamilies", "DropRowRange":
		return c14Tag(o)
	}
	return o.Kind
}

func replayC17(c *fw.Ctx, raw json.RawMessage) (string, string) {
	var dc diffCase
	if err := json.Unmarshal(raw, &dc); err != nil {
		return "bad-replay", err.Error()
	}
	m, cl, at, _ := runDiff(c, dc.Engines, dc.Ops, true)
	if m == "" {
		return "", ""
	}
	return fmt.Sprintf("C17:%s:%s", cl, c17Tag(&dc.Ops[at])), m
}

func c17Alphabet() []bt.Op {
	put := func(key string, muts ...bt.Mut) bt.Op {
		return bt.Op{Kind: "MutateRow", Table: tblT, Key: []byte(key), Muts: muts}
	}
	rd := func(f *bt.Filter, lim int64) bt.Op {
		return bt.Op{Kind: "ReadRows", Table: tblT, Filter: f, Limit: lim}
	}
	// filters that fail only on some rows (lazy evaluation reaches the invalid node only there)
	failSome := []*bt.Filter{
		{Kind: "chain", Subs: []*bt.Filter{re("key_re", "b.*"), fn("row_limit", -1)}},
		{Kind: "chain", Subs: []*bt.Filter{re("fam_re", "g"), re("val_re", "(")}},
		{Kind: "cond", Pred: re("qual_re", "q2"), True: &bt.Filter{Kind: "pass"}, False: &bt.Filter{Kind: "pass", B: true}},
		{Kind: "chain", Subs: []*bt.Filter{re("key_re", "a"), {Kind: "ts_range", T0: 1500}}},
	}
	ops := []bt.Op{
		{Kind: "CreateTable", Parent: parentI, TableID: "t", Fams: map[string]*bt.GC{"f": {Kind: "maxver", N: 1}, "g": nil}},
		put("a", mset("f", "q", 1000, "x")),
		put("a", mset("g", "q2", 2000, "y"), mset("f", "q", 2000, "x2")),
		put("b", mset("g", "q", 1000, "z")),
		put("b\x00", mset("f", "q2", 1000, "w")),
		put("c", mset("f", "q", -1, "srv")),
		put("a", bt.Mut{Kind: "delrow"}),
		put("b", mdelcol("g", "q")),
		put("a", mset("f", "q", 1500, "bad")),
		put("a", mset("f", "half", 1000, "applied"), mset("nofam", "q", 1000, "then rejected")), // rejected after its first mutation was applied in memory
		{Kind: "MutateRows", Table: tblT, Entries: []bt.Entry{{Key: []byte("a"), Muts: []bt.Mut{mset("f", "q", 3000, "m")}}, {Key: []byte("b"), Muts: []bt.Mut{mset("nofam", "q", 1000, "m")}}, {Key: []byte("d"), Muts: []bt.Mut{mset("g", "q", 1000, "m")}}}},
		{Kind: "CheckAndMutate", Table: tblT, Key: []byte("a"), Pred: re("fam_re", "g"), TrueM: []bt.Mut{mset("f", "cam", 1000, "t")}, FalseM: []bt.Mut{mset("g", "cam", 1000, "f")}},
		{Kind: "RMW", Table: tblT, Key: []byte("b"), Rules: []bt.Rule{{Fam: "f", Qual: []byte("n"), IsInc: true, Inc: 1}, {Fam: "g", Qual: []byte("q"), Append: []byte("+")}}},
		{Kind: "DropRowRange", Table: tblT, Prefix: []byte("b")},
		{Kind: "DropRowRange", Table: tblT, All: true},
		{Kind: "ModifyFamilies", Table: tblT, Mods: []bt.Mod{{ID: "g", Op: "drop"}}},
		{Kind: "ModifyFamilies", Table: tblT, Mods: []bt.Mod{{ID: "g", Op: "create"}}},
		{Kind: "DeleteTable", Table: tblT},
		{Kind: "CreateTable", Parent: parentI, TableID: "t", Fams: map[string]*bt.GC{"f": nil}},
		{Kind: "GC", Adv: int64(time.Hour)},
		rd(nil, 0), rd(nil, 1), rd(nil, 2),
		rd(fn("row_offset", 1), 1), rd(re("fam_re", "g"), 1),
		{Kind: "ReadRows", Table: tblT, HasRowSet: true, Keys: [][]byte{[]byte("b"), []byte("a")}, Ranges: []bt.Range{{SK: 2, S: []byte("a"), EK: 1, E: []byte("b\x00")}}},
		{Kind: "ReadRows", Table: tblT, HasRowSet: true, Ranges: []bt.Range{{SK: 1, S: []byte("c"), EK: 1, E: []byte("a")}}},
		{Kind: "SampleRowKeys", Table: tblT, Coins: []bool{true, false, true}},
	}
	for _, f := range failSome {
		ops = append(ops, rd(f, 0), rd(f, 1))
	}
	return ops
}

func init() {
	fw.Register(&fw.Check{
		ID:          "C17",
		Level:       "model_checking",
		Rule:        "explicit-state BFS (dedup on the btree engine's raw dump) over programs of admin and data requests (writes, multi-entry writes with a failing entry, check-and-mutate, read-modify-write, drops, clears, schema changes, delete/re-create, GC pass, reads with limits/rowsets and filters that fail only on some rows); every program runs on all engines side by side and every response (status, rows, order, per-entry statuses, predicate result, number of stream messages) plus a full read of every table is compared pairwise, positionally",
		Assumptions: []string{"error message texts are not compared (status codes are)", "quick tier compares btree with leveldb-mem; thorough adds leveldb-disk"},
		Run:         runC17,
		Replay:      replayC17,
		Budget: func(tier string) time.Duration {
			if tier == "thorough" {
				return 20 * time.Minute
			}
			return 120 * time.Second
		},
	})
}

func runC17(c *fw.Ctx) {
	alpha := c17Alphabet()
	type plan struct {
		engines []string
		depth   int
	}
	plans := []plan{{[]string{"btree", "mem"}, 5}}
	if c.Thorough() {
		plans = []plan{{[]string{"btree", "mem"}, 7}, {[]string{"btree", "mem", "disk"}, 5}}
	}
	for _, p := range plans {
		frontier := [][]int{{}}
		seen := map[uint64]bool{}
		completed := 0
		name := fmt.Sprint(p.engines)
	levels:
		for depth := 1; depth <= p.depth; depth++ {
			var next [][]int
			rec := depth > btShardDepth || c.Shard == 0
			for _, seq := range frontier {
				for k := range alpha {
					if c.Expired() {
						c.Incomplete(fmt.Sprintf("time budget reached at depth %d (depth %d complete) for %s", depth, completed, name))
						break levels
					}
					ns := append(append([]int(nil), seq...), k)
					ops := make([]bt.Op, len(ns))
					for i, x := range ns {
						ops[i] = alpha[x]
					}
					m, cl, at, h := runDiff(c, p.engines, ops, false)
					if rec {
						c.Eval(1)
						c.Trace(int64(len(p.engines)))
						c.Trans(1)
					}
					if m != "" {
						if rec {
							dc := diffCase{Engines: p.engines, Ops: ops}
							c.Violate(fmt.Sprintf("C17:%s:%s", cl, c17Tag(&ops[at])), m+"\n  program: "+bt.OpsString(ops), dc, func() string {
								b, _ := json.Marshal(dc)
								s, _ := replayC17(c, b)
								return s
							})
							c.Outcome("violation:" + cl)
						}
						continue
					}
					if rec {
						c.State(h)
						c.Outcome("agree:" + alpha[k].Kind)
						if len(ns) == 2 {
							c.Sample(map[string]interface{}{"engines": p.engines, "program": bt.OpsString(ops)})
						}
					}
					dk := h
					if destructiveOp(&alpha[k]) || (c17LastCode != "OK" && multiStepOp(&alpha[k])) {
						// see btSeq.Run: what a wholesale removal leaves behind inside ONE engine (a cache, a stale handle)
						// is in no dump; such histories are kept apart by their last two requests
						dk = fw.Hash(fmt.Sprint(h), "after", alpha[k].String(), bt.OpsString(ops[max(0, len(ops)-2):len(ops)-1]))
					}
					if seen[dk] {
						continue
					}
					seen[dk] = true
					if depth < p.depth {
						next = append(next, ns)
					}
				}
			}
			if depth == btShardDepth && c.N > 1 {
				var mine [][]int
				for i, s := range next {
					if i%c.N == c.Shard {
						mine = append(mine, s)
					}
				}
				next = mine
			}
			frontier = next
			completed = depth
		}
		c.Bound("depth_completed_"+name, completed)
		c17Catalogue(c, p.engines)
	}
	c.Bound("alphabet", len(alpha))
}

// c17Catalogue: on a table whose keys differ by trailing 0x00 / 0xff bytes, every single row range of the C03
// bound catalogue (15 x 15, with and without an extra row key and a limit) and every row-key prefix of a small
// catalogue (incl. prefixes made only of 0xff bytes, and the empty prefix) for DropRowRange: all engines must
// answer alike and hold the same rows afterwards.
func c17Catalogue(c *fw.Ctx, engines []string) {
	keys := append(append([]string(nil), c03Keys...), "\xff\xff", "a\xff", "b\x00")
	setup := append(setupT(), populate(keys, 2)[1:]...)
	run := func(item int64, ops []bt.Op) {
		if !c.Mine(item) {
			return
		}
		all := append(append([]bt.Op(nil), setup...), ops...)
		w := newDiffWorld(c, engines)
		defer w.Close()
		for i := range all {
			check := i >= len(setup)-1
			m, cl := w.step(&all[i], check)
			if check {
				c.Eval(1)
				c.Trace(int64(len(engines)))
				c.Trans(1)
				c.State(fw.Hash("catalogue", fmt.Sprint(engines), all[i].String()))
			}
			if m != "" {
				dc := diffCase{Engines: engines, Ops: all[:i+1]}
				c.Violate(fmt.Sprintf("C17:%s:%s", cl, c17Tag(&all[i])), m+"\n  program: "+bt.OpsString(all[:i+1]), dc, func() string {
					b, _ := json.Marshal(dc)
					s, _ := replayC17(c, b)
					return s
				})
				c.Outcome("violation:" + cl)
				return
			}
		}
		c.Outcome("agree:catalogue")
	}
	var item int64
	// reads do not change the state: many per world
	var reads []bt.Op
	for _, r := range c03Ranges() {
		reads = append(reads, bt.Op{Kind: "ReadRows", Table: tblT, HasRowSet: true, Ranges: []bt.Range{r}})
		reads = append(reads, bt.Op{Kind: "ReadRows", Table: tblT, HasRowSet: true, Ranges: []bt.Range{r}, Keys: [][]byte{[]byte("a\xff")}, Limit: 2})
	}
	for i := 0; i < len(reads); i += 30 {
		j := i + 30
		if j > len(reads) {
			j = len(reads)
		}
		item++
		run(item, reads[i:j])
	}
	for _, pfx := range []string{"", "a", "a\x00", "a\xff", "ab", "b", "\x00", "\xff", "\xff\xff", "\xff\xff\xff", "zz"} {
		item++
		run(item, []bt.Op{{Kind: "DropRowRange", Table: tblT, Prefix: []byte(pfx)}, {Kind: "SampleRowKeys", Table: tblT, Coins: []bool{true, false, true, false}}})
	}
	// a table longer than the engines' batching constants: reads cut around the 100th/200th row, a prefix drop of
	// 100 rows, a family drop and a GC pass over all rows
	var long []string
	for i := 0; i < 260; i++ {
		long = append(long, fmt.Sprintf("r%03d", i))
	}
	setup = append(setupT(), populate(long, 1)[1:]...)
	k := func(i int) []byte { return []byte(fmt.Sprintf("r%03d", i)) }
	var lr []bt.Op
	lr = append(lr, bt.Op{Kind: "ReadRows", Table: tblT})
	for _, b := range []int{99, 100, 101, 199, 200, 201} {
		lr = append(lr, bt.Op{Kind: "ReadRows", Table: tblT, Limit: int64(b)},
			bt.Op{Kind: "ReadRows", Table: tblT, HasRowSet: true, Ranges: []bt.Range{{SK: 2, S: k(b)}}},
			bt.Op{Kind: "ReadRows", Table: tblT, HasRowSet: true, Ranges: []bt.Range{{SK: 1, S: k(2), EK: 1, E: k(b)}}, Limit: int64(b - 1)})
	}
	item++
	run(item, lr)
	item++
	run(item, []bt.Op{{Kind: "DropRowRange", Table: tblT, Prefix: []byte("r1")}, {Kind: "ReadRows", Table: tblT, Limit: 150}})
	item++
	run(item, []bt.Op{{Kind: "ModifyFamilies", Table: tblT, Mods: []bt.Mod{{ID: "f", Op: "drop"}}}, {Kind: "SampleRowKeys", Table: tblT, Coins: []bool{false, true}}, {Kind: "ModifyFamilies", Table: tblT, Mods: []bt.Mod{{ID: "f", Op: "create"}}}, {Kind: "ReadRows", Table: tblT}})
	// 1 100 rows (beyond 256 / 512 / 1 000 / 1 024): scans that must STOP at a row in the middle - a filter that is invalid
	// only on one row (the scan fails there on every engine, whatever batches the engine reads in), limits around powers of two
	long = nil
	for i := 0; i < 1100; i++ {
		long = append(long, fmt.Sprintf("r%04d", i))
	}
	setup = append(setupT(), populate(long, 1)[1:]...)
	k4 := func(i int) string { return fmt.Sprintf("r%04d", i) }
	var fr []bt.Op
	for _, at := range []int{0, 10, 99, 100, 255, 256, 257, 511, 512, 600, 1023, 1024, 1099} {
		bad := []*bt.Filter{
			{Kind: "cond", Pred: re("key_re", k4(at)), True: fn("row_limit", -1), False: &bt.Filter{Kind: "pass", B: true}},
			{Kind: "chain", Subs: []*bt.Filter{re("key_re", k4(at)), re("val_re", "(")}},
			{Kind: "interleave", Subs: []*bt.Filter{{Kind: "pass", B: true}, {Kind: "chain", Subs: []*bt.Filter{re("key_re", k4(at)), {Kind: "pass"}}}}},
		}
		for _, f := range bad {
			fr = append(fr, bt.Op{Kind: "ReadRows", Table: tblT, Filter: f},
				bt.Op{Kind: "ReadRows", Table: tblT, Filter: f, HasRowSet: true, Ranges: []bt.Range{{SK: 1, S: []byte(k4(5))}}, Limit: int64(at + 3)},
				bt.Op{Kind: "ReadRows", Table: tblT, Filter: f, HasRowSet: true, Ranges: []bt.Range{{EK: 2, E: []byte(k4(at))}, {SK: 2, S: []byte(k4(at))}}})
		}
		fr = append(fr, bt.Op{Kind: "ReadRows", Table: tblT, Limit: int64(at + 1)},
			bt.Op{Kind: "ReadRows", Table: tblT, Filter: re("key_re", k4(at)+"|"+k4(1099-at))})
	}
	for i := 0; i < len(fr); i += 12 {
		item++
		run(item, fr[i:min(i+12, len(fr))])
	}
	// one MutateRows of 1 200 entries in which some rows occur twice (the second entry builds on the first), then reads
	var ents []bt.Entry
	for i := 0; i < 1200; i++ {
		key := k4(i % 1150)
		ents = append(ents, bt.Entry{Key: []byte(key), Muts: []bt.Mut{mset("g", fmt.Sprintf("q%d", i/1150), 2000, fmt.Sprintf("v%d", i))}})
	}
	ents = append(ents, bt.Entry{Key: []byte(k4(7)), Muts: []bt.Mut{{Kind: "delrow"}}}, bt.Entry{Key: []byte(k4(7)), Muts: []bt.Mut{mset("f", "again", 3000, "z")}})
	item++
	run(item, []bt.Op{{Kind: "MutateRows", Table: tblT, Entries: ents}, {Kind: "ReadRows", Table: tblT}, {Kind: "DropRowRange", Table: tblT, Prefix: []byte("r00")}, {Kind: "ReadRows", Table: tblT, Limit: 300}})
	c.Bound("catalogue_reads", len(reads))
	c.Bound("long_table_rows", len(long))
}
