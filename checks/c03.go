package checks

import (
	"encoding/json"
	"fmt"
	"sort"
	"time"

	"verif/bt"
	"verif/fw"
)

// C03 — ReadRows returns exactly the requested rows, once, in key order; SampleRowKeys.

var c03Keys = []string{"a", "a\x00", "a\x00\x00", "ab", "b", "\x00", "\xff"}

func c03Bounds() []struct {
	K int
	V []byte
} {
	out := []struct {
		K int
		V []byte
	}{{0, nil}}
	for _, kind := range []int{2, 1} {
		for _, k := range c03Keys {
			out = append(out, struct {
				K int
				V []byte
			}{kind, []byte(k)})
		}
	}
	return out
}

func c03Ranges() []bt.Range {
	var rs []bt.Range
	bs := c03Bounds()
	for _, s := range bs {
		for _, e := range bs {
			rs = append(rs, bt.Range{SK: s.K, S: s.V, EK: e.K, E: e.V})
		}
	}
	return rs
}

func populate(keys []string, cellsPerRow int) []bt.Op {
	ops := setupT()
	for _, k := range keys {
		var muts []bt.Mut
		for i := 0; i < cellsPerRow; i++ {
			muts = append(muts, mset("f", fmt.Sprintf("c%04d", i), 1000, "v"+k))
		}
		ops = append(ops, bt.Op{Kind: "MutateRow", Table: tblT, Key: []byte(k), Muts: muts})
	}
	return ops
}

func c03Tag(o *bt.Op) string {
	switch o.Kind {
	case "ReadRows":
		t := "ReadRows"
		if o.Filter != nil {
			t += "+filter:" + o.Filter.Kind
		}
		if o.Limit > 0 {
			t += "+limit"
		}
		if o.HasRowSet {
			t += fmt.Sprintf("+keys%d+ranges%d", len(o.Keys), len(o.Ranges))
		}
		return t
	}
	return o.Kind
}

func init() {
	fw.Register(&fw.Check{
		ID:    "C03",
		Level: "model_checking",
		Rule: "product enumeration executed on the real service: every RowSet of <=1 range + <=1 key (and every pair of ranges) with each bound unset/open/closed over 7 adversarial keys x rows_limit x table contents (every subset of the key universe) x engine; " +
			"plus multi-message result sets, limits combined with row-emptying filters, and SampleRowKeys under every answer sequence of the random seam; oracle: membership predicate on keys (no range merging) + chunk state machine; a state is a distinct (table content, engine)",
		Assumptions: []string{
			"empty byte strings as range bounds or row keys are not exercised (the API treats an empty bound as unset)",
			"InvalidArgument is required exactly when some range has both ends set and start > end bytewise",
		},
		Run:    runC03,
		Replay: func(c *fw.Ctx, raw json.RawMessage) (string, string) { return replaySeqRaw(c, "C03", raw, c03Tag) },
		Budget: func(tier string) time.Duration {
			if tier == "thorough" {
				return 20 * time.Minute
			}
			return 70 * time.Second
		},
	})
}

func replaySeqRaw(c *fw.Ctx, id string, raw json.RawMessage, tag func(*bt.Op) string) (string, string) {
	var sc seqCase
	if err := json.Unmarshal(raw, &sc); err != nil {
		return "bad-replay", err.Error()
	}
	return replaySeq(c, id, sc, tag)
}

// readBatch runs a list of read-only requests against one populated instance, comparing each
// with the model; violations carry a self-contained replay (setup + the one read).
func readBatch(c *fw.Ctx, id, engine string, setup []bt.Op, tag func(*bt.Op) string, gen func(emit func(o bt.Op))) {
	w := newBTWorld(c, engine)
	defer w.Close()
	w.stateCheck = false
	for i := range setup {
		if m, cl := w.Step(&setup[i], true); m != "" {
			sc := seqCase{Engine: engine, Setup: setup[:i+1]}
			c.Violate(fmt.Sprintf("%s:%s:%s:setup", id, engine, cl), "setup: "+m, sc, nil)
			return
		}
	}
	// the populated table itself must read back as the model says (one full unfiltered read)
	w.stateCheck = true
	if m := w.CompareState(); m != "" {
		sc := seqCase{Engine: engine, Setup: setup}
		c.Violate(fmt.Sprintf("%s:%s:state:setup", id, engine), "state after the setup requests: "+m, sc, func() string {
			s, _ := replaySeq(c, id, sc, tag)
			return s
		})
		return
	}
	w.stateCheck = false
	h := w.Hash()
	c.State(h)
	n := 0
	nfail := 0
	var earlier []bt.Op
	gen(func(o bt.Op) {
		if w.drv.Poisoned || nfail >= 25 {
			// 25 wrong answers in one batch: the instance is beyond judging (e.g. a read that damages what is stored);
			// the remaining requests of the batch would only repeat the report at great cost
			return
		}
		defer func() { earlier = append(earlier, o) }()
		n++
		if n == 1 || n == 37 {
			c.Sample(map[string]interface{}{"engine": engine, "setup": bt.OpsString(setup), "request": o.String()})
		}
		c.State(fw.Hash(fmt.Sprint(h), o.String()))
		m, cl := w.Step(&o, true)
		c.Eval(1)
		c.Trace(1)
		c.Trans(1)
		if m != "" {
			nfail++
			sig := fmt.Sprintf("%s:%s:%s:%s", id, engine, cl, tag(&o))
			sc := seqCase{Engine: engine, Setup: setup, Ops: []bt.Op{o}}
			if c.SigRecorded(sig) {
				c.Violate(sig, m, sc, nil) // counted; the artefact of this signature exists already
				c.Outcome("violation:" + cl)
				return
			}
			if s1, _ := replaySeq(c, id, sc, tag); s1 != sig && len(earlier) > 0 {
				// on a fresh instance the request is answered correctly: what went wrong depends on the read-only requests
				// sent before it (something they should not have left behind); the artefact carries them all
				sc = seqCase{Engine: engine, Setup: setup, Ops: append(append([]bt.Op(nil), earlier...), o), ReadsOnly: true}
				m = fmt.Sprintf("after %d earlier read-only requests on the same table (alone, on a fresh instance, the request is answered correctly): %s", len(earlier), m)
			}
			c.Violate(sig, m, sc, func() string {
				s, _ := replaySeq(c, id, sc, tag)
				return s
			})
			c.Outcome("violation:" + cl)
			if w.drv.Poisoned {
				return
			}
		} else {
			nc := 0
			for _, r := range w.last.Rows {
				nc += r.NCells()
			}
			c.Outcome(fmt.Sprintf("%s:rows=%d,cells=%d,msgs=%d", w.last.Code, len(w.last.Rows), nc, w.last.Messages))
		}
	})
	c.Note("ambiguous_skipped", w.ambiguous)
	if !w.drv.Poisoned {
		w.stateCheck = true
		if m := w.CompareState(); m != "" {
			c.Violate(fmt.Sprintf("%s:%s:state:after-reads", id, engine), "state changed by read-only requests: "+m, seqCase{Engine: engine, Setup: setup}, nil)
		}
		if w.Hash() != h {
			c.Violate(fmt.Sprintf("%s:%s:state:raw-after-reads", id, engine), "raw stored state changed by read-only requests", seqCase{Engine: engine, Setup: setup}, nil)
		}
	}
}

func subsetsOf(keys []string) [][]string {
	var out [][]string
	for m := 0; m < 1<<len(keys); m++ {
		var s []string
		for i, k := range keys {
			if m&(1<<i) != 0 {
				s = append(s, k)
			}
		}
		out = append(out, s)
	}
	return out
}

func runC03(c *fw.Ctx) {
	ranges := c03Ranges()
	limits := []int64{0, 1, 2, 3, 100}
	engines := []string{"btree", "mem"}
	if c.Thorough() {
		engines = []string{"btree", "mem", "disk"}
	}
	var item int64
	outcome := func(o bt.Op, w *bt.Resp) {}
	_ = outcome
	tables := subsetsOf(c03Keys)
	for _, eng := range engines {
		// pass 1: <=1 range + <=1 key, every subset of the key universe as table content
		tbls := tables
		if eng == "disk" {
			tbls = [][]string{c03Keys, {"a", "a\x00\x00", "b"}, {}}
		}
		for _, content := range tbls {
			item++
			if !c.Mine(item) {
				continue
			}
			if c.Expired() {
				c.Incomplete("time budget reached in single-range pass")
				return
			}
			readBatch(c, "C03", eng, populate(content, 1), c03Tag, func(emit func(bt.Op)) {
				emit(bt.Op{Kind: "ReadRows", Table: tblT})                  // absent RowSet
				emit(bt.Op{Kind: "ReadRows", Table: tblT, HasRowSet: true}) // empty RowSet
				for _, lim := range limits {
					for ri := -1; ri < len(ranges); ri++ {
						for ki := -1; ki < len(c03Keys); ki++ {
							if ri < 0 && ki < 0 {
								continue
							}
							o := bt.Op{Kind: "ReadRows", Table: tblT, HasRowSet: true, Limit: lim}
							if ri >= 0 {
								o.Ranges = []bt.Range{ranges[ri]}
							}
							if ki >= 0 {
								o.Keys = [][]byte{[]byte(c03Keys[ki])}
							}
							emit(o)
						}
					}
				}
				// duplicated keys, a key given twice plus a range
				emit(bt.Op{Kind: "ReadRows", Table: tblT, HasRowSet: true, Keys: [][]byte{[]byte("a"), []byte("a"), []byte("b")}})
				emit(bt.Op{Kind: "ReadRows", Table: tblT, HasRowSet: true, Keys: [][]byte{[]byte("b"), []byte("a\x00")}, Ranges: []bt.Range{{SK: 1, S: []byte("a"), EK: 2, E: []byte("ab")}}})
			})
		}
		c.Bound(eng+"_single_range_tables", len(tbls))
		// pass 2: every pair of ranges (+ optionally one key), on fixed tables
		fixed := [][]string{c03Keys, {"a", "a\x00\x00", "b", "\xff"}, {"a\x00", "ab"}}
		pairLimits := []int64{0, 2}
		allKeys := []int{-1, 0, 1, 2, 3, 4, 5, 6}
		pairKeys := allKeys
		sub := ranges
		if !c.Thorough() && eng != "btree" {
			// quick, leveldb engines: pairs over the 4-key sub-universe {a, a\x00, ab, b} (9 bounds -> 81 ranges -> 6561 pairs)
			sub = nil
			for _, r := range ranges {
				ok := func(b []byte) bool {
					s := string(b)
					return b == nil || s == "a" || s == "a\x00" || s == "ab" || s == "b"
				}
				if ok(r.S) && ok(r.E) {
					sub = append(sub, r)
				}
			}
		}
		if !c.Thorough() {
			fixed = fixed[:2]
		} else {
			pairLimits = limits
		}
		if eng == "disk" {
			fixed = fixed[:1]
			pairLimits = []int64{0, 2}
			pairKeys = []int{-1, 1, 4}
		}
		for ti, content := range fixed {
			// split the pair space of one table over shards by the first range
			for r1 := range sub {
				item++
				if !c.Mine(item) {
					continue
				}
				if c.Expired() {
					c.Incomplete("time budget reached in range-pair pass")
					return
				}
				_ = ti
				readBatch(c, "C03", eng, populate(content, 1), c03Tag, func(emit func(bt.Op)) {
					for r2 := range sub {
						for _, lim := range pairLimits {
							for _, ki := range pairKeys {
								o := bt.Op{Kind: "ReadRows", Table: tblT, HasRowSet: true, Limit: lim, Ranges: []bt.Range{sub[r1], sub[r2]}}
								if ki >= 0 {
									o.Keys = [][]byte{[]byte(c03Keys[ki])}
								}
								emit(o)
							}
						}
					}
				})
			}
		}
		c.Bound(eng+"_pair_ranges", len(sub)*len(sub))
		// pass 3: result sets spanning several response messages: 5 rows x 600 cells; the server sends
		// whenever more than 1024 chunks have accumulated, i.e. after the 2nd and the 4th row and at the end
		item++
		if c.Mine(item) {
			big := []string{"a", "a\x00", "ab", "b", "\xff"}
			readBatch(c, "C03", eng, populate(big, 600), c03Tag, func(emit func(bt.Op)) {
				emit(bt.Op{Kind: "ReadRows", Table: tblT})
				for _, lim := range limits {
					for _, r := range []bt.Range{{}, {SK: 1, S: []byte("a")}, {SK: 2, S: []byte("a")}, {EK: 2, E: []byte("b")}, {EK: 1, E: []byte("b")}, {SK: 2, S: []byte("a"), EK: 2, E: []byte("b")}} {
						emit(bt.Op{Kind: "ReadRows", Table: tblT, HasRowSet: true, Ranges: []bt.Range{r}, Limit: lim})
						emit(bt.Op{Kind: "ReadRows", Table: tblT, HasRowSet: true, Ranges: []bt.Range{r}, Limit: lim, Filter: &bt.Filter{Kind: "col_limit", N: 1}})
					}
				}
			})
		}
		// pass 4: limit x filters that leave some rows without output
		item++
		if c.Mine(item) {
			setup := setupT()
			// rows with 1, 2, 1, 3, 1 cells; family g only on some
			spec := []struct {
				k string
				n int
				g bool
			}{{"a", 1, false}, {"a\x00", 2, true}, {"ab", 1, false}, {"b", 3, true}, {"\xff", 1, false}}
			for _, s := range spec {
				var muts []bt.Mut
				for i := 0; i < s.n; i++ {
					muts = append(muts, mset("f", fmt.Sprintf("c%d", i), 1000, "v"))
				}
				if s.g {
					muts = append(muts, mset("g", "x", 1000, "w"))
				}
				setup = append(setup, bt.Op{Kind: "MutateRow", Table: tblT, Key: []byte(s.k), Muts: muts})
			}
			filters := []*bt.Filter{
				{Kind: "row_offset", N: 1}, {Kind: "row_offset", N: 2}, {Kind: "row_offset", N: 3},
				{Kind: "fam_re", S: []byte("g")}, {Kind: "qual_re", S: []byte("c1")}, {Kind: "qual_re", S: []byte("c2")},
				{Kind: "chain", Subs: []*bt.Filter{{Kind: "fam_re", S: []byte("f")}, {Kind: "row_offset", N: 1}}},
				{Kind: "chain", Subs: []*bt.Filter{{Kind: "strip"}, {Kind: "row_offset", N: 2}}},
				{Kind: "cond", Pred: &bt.Filter{Kind: "fam_re", S: []byte("g")}, True: &bt.Filter{Kind: "pass", B: true}},
				{Kind: "cond", Pred: &bt.Filter{Kind: "fam_re", S: []byte("g")}, False: &bt.Filter{Kind: "pass", B: true}},
				{Kind: "key_re", S: []byte("a.*")}, {Kind: "block", B: true}, {Kind: "row_limit", N: 0}, {Kind: "col_limit", N: 0},
			}
			readBatch(c, "C03", eng, setup, c03Tag, func(emit func(bt.Op)) {
				for _, f := range filters {
					for _, lim := range limits {
						emit(bt.Op{Kind: "ReadRows", Table: tblT, Filter: f, Limit: lim})
						emit(bt.Op{Kind: "ReadRows", Table: tblT, Filter: f, Limit: lim, HasRowSet: true, Ranges: []bt.Range{{SK: 2, S: []byte("a")}}})
					}
				}
			})
		}
		// pass 5: SampleRowKeys under every answer sequence of the random seam
		for n := 0; n <= 5; n++ {
			item++
			if !c.Mine(item) {
				continue
			}
			keys := append([]string(nil), c03Keys[:n]...)
			sort.Strings(keys)
			sampleBatch(c, eng, keys, nil)
			// ... and of tables some of whose rows have lost all their cells since (by every kind of delete): such a
			// row is not a stored row any more, wherever it stood (first, inner, last key)
			if n >= 2 {
				for mask := 1; mask < 1<<n; mask++ {
					if n > 3 && mask != 1 && mask != 1<<(n-1) && mask != 1<<(n-1)|1 && mask != (1<<n)-1 && mask != 2 {
						continue // larger tables: first, last, both, all, second
					}
					for how := 0; how < 4; how++ {
						var emptied []bt.Op
						var left []string
						for i, k := range keys {
							if mask&(1<<i) == 0 {
								left = append(left, k)
								continue
							}
							var muts []bt.Mut
							switch how {
							case 0:
								muts = []bt.Mut{mdelcol("f", "c0000"), mdelcol("f", "c0001")}
							case 1:
								muts = []bt.Mut{mdelfam("f")}
							case 2:
								muts = []bt.Mut{mdelcolr("f", "c0000", 0, 2000), mdelcolr("f", "c0001", 1000, 0)}
							case 3:
								muts = []bt.Mut{{Kind: "delrow"}}
							}
							emptied = append(emptied, bt.Op{Kind: "MutateRow", Table: tblT, Key: []byte(k), Muts: muts})
						}
						sampleBatch(c, eng, keys, emptied, left...)
					}
				}
			}
		}
		// pass 5b: cells larger than any message or buffer size a server is likely to split at (1.2 MiB and 3 MiB values,
		// next to ordinary cells): the chunk stream must still be well formed and reassemble to the value
		item++
		if c.Mine(item) {
			mk := func(n int, tag byte) string {
				b := make([]byte, n)
				for i := range b {
					b[i] = tag + byte(i%29)
				}
				return string(b)
			}
			setup := append(setupT(),
				bt.Op{Kind: "MutateRow", Table: tblT, Key: []byte("a"), Muts: []bt.Mut{mset("f", "small", 1000, "s")}},
				bt.Op{Kind: "MutateRow", Table: tblT, Key: []byte("b"), Muts: []bt.Mut{mset("f", "big", 2000, mk(1_200_000, 'A')), mset("f", "big", 1000, mk(1_048_577, 'a')), mset("g", "x", 1000, "after")}},
				bt.Op{Kind: "MutateRow", Table: tblT, Key: []byte("c"), Muts: []bt.Mut{mset("g", "huge", 3000, mk(3_000_000, 'N'))}})
			readBatch(c, "C03", eng, setup, c03Tag, func(emit func(bt.Op)) {
				emit(bt.Op{Kind: "ReadRows", Table: tblT})
				emit(bt.Op{Kind: "ReadRows", Table: tblT, Limit: 2})
				emit(bt.Op{Kind: "ReadRows", Table: tblT, HasRowSet: true, Keys: [][]byte{[]byte("b")}})
				emit(bt.Op{Kind: "ReadRows", Table: tblT, Filter: &bt.Filter{Kind: "col_limit", N: 1}})
			})
		}
		// pass 6: a table longer than the batching constants of the engines and of the service (iterators and
		// the GC pass work in batches of ~100 rows, a response message holds ~1024 chunks): full reads, limits
		// and range bounds placed around the 100th, 200th, 1024th ... row
		item++
		if c.Mine(item) {
			var long []string
			for i := 0; i < 1100; i++ {
				long = append(long, fmt.Sprintf("r%04d", i))
			}
			k := func(i int) []byte { return []byte(fmt.Sprintf("r%04d", i)) }
			readBatch(c, "C03", eng, populate(long, 1), c03Tag, func(emit func(bt.Op)) {
				emit(bt.Op{Kind: "ReadRows", Table: tblT})
				for _, lim := range []int64{99, 100, 101, 199, 200, 201, 1023, 1024, 1025, 1099, 1100, 1101} {
					emit(bt.Op{Kind: "ReadRows", Table: tblT, Limit: lim})
					emit(bt.Op{Kind: "ReadRows", Table: tblT, HasRowSet: true, Ranges: []bt.Range{{SK: 1, S: k(3)}}, Limit: lim})
				}
				for _, b := range []int{98, 99, 100, 101, 199, 200, 201, 1023, 1024, 1025} {
					for _, sk := range []int{1, 2} {
						emit(bt.Op{Kind: "ReadRows", Table: tblT, HasRowSet: true, Ranges: []bt.Range{{SK: sk, S: k(b)}}})
						emit(bt.Op{Kind: "ReadRows", Table: tblT, HasRowSet: true, Ranges: []bt.Range{{EK: sk, E: k(b)}}})
						emit(bt.Op{Kind: "ReadRows", Table: tblT, HasRowSet: true, Ranges: []bt.Range{{SK: sk, S: k(1)}, {SK: 1, S: k(b), EK: 2, E: k(b + 150)}}, Keys: [][]byte{k(0), k(b + 400)}})
					}
				}
			})
		}
	}
	c.Bound("ranges", len(ranges))
	c.Bound("limits", limits)
}

// sampleBatch: a table of the given keys (two cells each), then the given further requests; stored (if given) are
// the keys that still have cells afterwards.
func sampleBatch(c *fw.Ctx, engine string, keys []string, more []bt.Op, stored ...string) {
	setup := append(populate(keys, 2), more...)
	if more != nil {
		keys = stored
	}
	w := newBTWorld(c, engine)
	defer w.Close()
	for i := range setup {
		if m, cl := w.Step(&setup[i], true); m != "" {
			// the table cannot even be built as the model says: that is a finding of its own, not a reason to skip
			sc := seqCase{Engine: engine, Ops: setup[:i+1]}
			c.Violate(fmt.Sprintf("C03:%s:%s:%s", engine, cl, c03Tag(&setup[i])), "while building the table for SampleRowKeys: "+m+"\n  sequence: "+bt.OpsString(setup[:i+1]), sc, func() string {
				s, _ := replaySeq(c, "C03", sc, c03Tag)
				return s
			})
			return
		}
	}
	c.State(w.Hash())
	n := len(keys)
	for mask := 0; mask < 1<<n; mask++ {
		coins := make([]bool, n)
		for i := range coins {
			coins[i] = mask&(1<<i) != 0
		}
		o := bt.Op{Kind: "SampleRowKeys", Table: tblT, Coins: coins}
		got := w.drv.Apply(&o)
		c.Eval(1)
		c.Trace(1)
		c.Trans(1)
		bad := ""
		switch {
		case got.Panic != "":
			bad = "panic: " + got.Panic
		case got.Code != "OK":
			bad = "status " + got.Code
		default:
			bad = checkSamples(keys, got.Samples)
		}
		c.Outcome(fmt.Sprintf("sample:%d-of-%d", len(got.Samples), n))
		if bad != "" {
			sc := seqCase{Engine: engine, Setup: setup, Ops: []bt.Op{o}}
			c.Violate(fmt.Sprintf("C03:%s:sample:SampleRowKeys", engine), fmt.Sprintf("SampleRowKeys coins=%v -> %v: %s", coins, got.Samples, bad), sc, nil)
		}
	}
}

// checkSamples: ascending subsequence of the stored keys, ending with the last stored key,
// non-decreasing offsets.
func checkSamples(keys []string, ss []bt.SampleOut) string {
	if len(keys) == 0 {
		if len(ss) != 0 {
			return "samples from an empty table"
		}
		return ""
	}
	if len(ss) == 0 {
		return "no sample although the table has rows"
	}
	pos := -1
	lastOff := int64(-1)
	for _, s := range ss {
		found := -1
		for i := pos + 1; i < len(keys); i++ {
			if keys[i] == s.Key {
				found = i
				break
			}
		}
		if found < 0 {
			return fmt.Sprintf("sample %q is not a stored key after the previous sample (not an ascending subsequence)", s.Key)
		}
		pos = found
		if s.Offset < lastOff {
			return fmt.Sprintf("offset decreases at %q", s.Key)
		}
		lastOff = s.Offset
	}
	if ss[len(ss)-1].Key != keys[len(keys)-1] {
		return fmt.Sprintf("last sample %q is not the last stored key %q", ss[len(ss)-1].Key, keys[len(keys)-1])
	}
	return ""
}
