package checks

import (
	"encoding/json"
	"fmt"
	"strings"
	"time"

	"verif/fw"
	"verif/gcs"
)

// C11 — GCS: listing is complete, duplicate-free, ordered for any prefix/delimiter/page.

var c11Universe = []string{"a", "a.txt", "a/b", "a/c", "a-b/c", "ab", "b/c/d", "b"}

func c11Tag(o *GOp) string {
	if o.Kind != "List" {
		return o.Kind
	}
	t := "List"
	if o.Prefix != "" {
		t += "+prefix"
	}
	if o.Delim != "" {
		t += "+delim"
	}
	if o.MaxRes != "" {
		t += "+max" + o.MaxRes
	}
	if o.Token != "" {
		t += "+badtoken"
	}
	return t
}

// fileClash: the file store cannot hold both "a" and "a/b" (a path is a file or a directory).
func fileClash(names []string) bool {
	for _, x := range names {
		for _, y := range names {
			if strings.HasPrefix(y, x+"/") {
				return true
			}
		}
	}
	return false
}

func init() {
	fw.Register(&fw.Check{
		ID:          "C11",
		Level:       "model_checking",
		Rule:        "exhaustive product on the real HTTP handler: EVERY subset of an 8-name universe (nested 'directories', names differing by characters that sort below '/') x prefix x delimiter (single and multi-character) x maxResults {1,2,3,1000} x store; every page chain is followed to its end and the concatenation is compared with the model listing (items, collapsed prefixes, order, no repeats across pages, page sizes, item metadata = metadata GET); plus missing bucket, malformed page tokens and maxResults values",
		Assumptions: []string{"file store: subsets containing a name that is both an object and a 'directory' of another object are skipped (not representable as files)"},
		Run:         runC11,
		Replay:      gcsReplay("C11", c11Tag),
		Budget: func(tier string) time.Duration {
			if tier == "thorough" {
				return 15 * time.Minute
			}
			return 180 * time.Second // the 12 000-object bucket is one work item of about a minute
		},
	})
}

func c11Lists() []GOp {
	var out []GOp
	for _, p := range []string{"", "a", "a/", "a.", "b/c", "z", "a-", "b"} {
		for _, d := range []string{"", "/", "-", "/c", "."} {
			for _, mx := range []string{"1", "2", "3", "1000", ""} {
				out = append(out, GOp{Kind: "List", Bucket: "b", Prefix: p, Delim: d, MaxRes: mx})
			}
		}
	}
	out = append(out,
		GOp{Kind: "List", Bucket: "nobucket"},
		GOp{Kind: "List", Bucket: "b", Token: "%%%not-base64"},
		GOp{Kind: "List", Bucket: "b", Token: "AAAA////"},
		GOp{Kind: "List", Bucket: "b", MaxRes: "0"}, GOp{Kind: "List", Bucket: "b", MaxRes: "-1"}, GOp{Kind: "List", Bucket: "b", MaxRes: "x"},
	)
	return out
}

// c11UniverseU: names whose bytewise order differs from "looks like" order: 2-, 3- and 4-byte UTF-8
// sequences (a supplementary-plane character sorts above every BMP character), the largest code
// point, and a neighbour of the "directory" that sorts between "u/" and "u0".
var c11UniverseU = []string{"u/a", "u/\u00e9", "u/\uffee", "u/\U0001F600.png", "u/\U0010FFFF", "u/\U0010FFFFz", "u0", "u/x..y", "u/xy"}

func c11ListsU() []GOp {
	var out []GOp
	for _, p := range []string{"", "u", "u/"} {
		for _, d := range []string{"", "/", "."} {
			for _, mx := range []string{"1", "2", "1000", ""} {
				out = append(out, GOp{Kind: "List", Bucket: "b", Prefix: p, Delim: d, MaxRes: mx})
			}
		}
	}
	return out
}

// c11UniverseP: names whose last component starts or ends with a character that file-system tools treat
// specially (hidden files, editor and NFS scratch files, shell metacharacters): to the API they are names like
// any other.
var c11UniverseP = []string{".config", "a/.keep", ".a/x", "~t", "a/~x", "a/x~", "#h", "_u"}

func c11ListsP() []GOp {
	var out []GOp
	for _, p := range []string{"", "a/", "."} {
		for _, d := range []string{"", "/", "."} {
			for _, mx := range []string{"1", "2", ""} {
				out = append(out, GOp{Kind: "List", Bucket: "b", Prefix: p, Delim: d, MaxRes: mx})
			}
		}
	}
	return out
}

func runC11(c *fw.Ctx) {
	var item int64
	if c.Thorough() {
		// 11 names: 2048 buckets
		c11Universe = append(c11Universe, "a/b/c", "a.", "b/c-d")
	}
	c11Run(c, &item, c11Universe, c11Lists())
	c11Run(c, &item, c11UniverseU, c11ListsU())
	c11Run(c, &item, c11UniverseP, c11ListsP())
	// a bucket larger than the default page size (1000): default paging, page sizes around it
	var big []string
	for i := 0; i < 1003; i++ {
		big = append(big, fmt.Sprintf("n%04d", i))
	}
	big = append(big, "d/1", "d/2", "z")
	var bigLists []GOp
	for _, p := range []string{"", "n0", "n1", "d/"} {
		for _, d := range []string{"", "/", "0"} {
			for _, mx := range []string{"", "1000", "999", "1001", "500"} {
				bigLists = append(bigLists, GOp{Kind: "List", Bucket: "b", Prefix: p, Delim: d, MaxRes: mx})
			}
		}
	}
	c11RunFixed(c, &item, big, bigLists)
	c.Bound("large_bucket_objects", len(big))
	// a bucket of 12 000 objects, listed with prefixes that select a handful of names behind (or in the middle of) thousands
	// of others: whatever bounds the work of one page must not lose names or end the page chain early
	var huge []string
	for i := 0; i < 12000; i++ {
		huge = append(huge, fmt.Sprintf("m%05d", i))
	}
	huge = append(huge, "a-first", "z/1", "z/2", "zz")
	var hugeLists []GOp
	for _, p := range []string{"z", "z/", "zz", "m119", "m1199", "a", "n"} {
		for _, d := range []string{"", "/"} {
			for _, mx := range []string{"", "3"} {
				hugeLists = append(hugeLists, GOp{Kind: "List", Bucket: "b", Prefix: p, Delim: d, MaxRes: mx})
			}
		}
	}
	hugeLists = append(hugeLists, GOp{Kind: "List", Bucket: "b", MaxRes: "5000"}, GOp{Kind: "List", Bucket: "b", Delim: "/", MaxRes: "11999"}, GOp{Kind: "List", Bucket: "b", Delim: "0", MaxRes: "7"})
	c11RunFixed(c, &item, huge, hugeLists)
	c.Bound("huge_bucket_objects", len(huge))
	// names at the length limit (1024 bytes; path components stay below 255 bytes so that the file store can hold them):
	// collapsed prefixes of 1021-1024 bytes, whose resume cursor is longer than any object name
	deep := strings.Repeat("p/", 505) // 1010 bytes
	var long []string
	for _, g := range []string{"g12345678/", "g123456789/", "g1234567890/", "g12345678901/"} { // groups of 1020..1023 bytes
		long = append(long, deep+g+"a", deep+g+"b")
	}
	long = append(long, deep+"h", deep+"i/j", deep+strings.Repeat("n", 14), "q")
	var longLists []GOp
	for _, p := range []string{"", deep, deep + "g"} {
		for _, d := range []string{"/", ""} {
			for _, mx := range []string{"1", "2", "1000"} {
				longLists = append(longLists, GOp{Kind: "List", Bucket: "b", Prefix: p, Delim: d, MaxRes: mx})
			}
		}
	}
	c11RunFixed(c, &item, long, longLists)
	c.Bound("long_names_max_len", 1024)
	c.Bound("universe", c11Universe)
	c.Bound("universe_unicode", fmt.Sprintf("%+q", c11UniverseU))
	c.Bound("universe_punctuation", c11UniverseP)
	c.Bound("list_requests_per_bucket", len(c11Lists()))
	c.Bound("list_requests_per_bucket_unicode", len(c11ListsU()))
}

// c11RunFixed lists ONE bucket holding exactly the given names.
func c11RunFixed(c *fw.Ctx, itemp *int64, names []string, lists []GOp) {
	c11RunSets(c, itemp, [][]string{names}, lists)
}

func c11Run(c *fw.Ctx, itemp *int64, universe []string, lists []GOp) {
	c11RunSets(c, itemp, subsetsOf(universe), lists)
}

// c11CheckFrom: replays of small buckets compare the state after every request; for the large fixtures only from
// the last upload on, as the run itself does.
func c11CheckFrom(lastSetup int) int {
	if lastSetup > 40 {
		return lastSetup
	}
	return 0
}

func c11RunSets(c *fw.Ctx, itemp *int64, subsets [][]string, lists []GOp) {
	item := *itemp
	defer func() { *itemp = item }()
	for _, store := range []string{"mem", "file"} {
		skipped := 0
		for _, names := range subsets {
			if store == "file" && fileClash(names) {
				skipped++
				continue
			}
			item++
			if !c.Mine(item) {
				continue
			}
			if c.Expired() {
				c.Incomplete("time budget reached")
				return
			}
			setup := []GOp{{Kind: "CreateBucket", Bucket: "b"}}
			for i, n := range names {
				setup = append(setup, GOp{Kind: "Upload", Proto: "media", Bucket: "b", Name: n, Data: []byte(fmt.Sprintf("content-%d", i)), Meta: gcs.ObjMeta{ContentType: "text/plain"}})
			}
			w := newGCSWorld(c, store, 1, nil)
			okSetup := true
			for i := range setup {
				// the bucket as a whole is compared with the model once, after the last upload (a replay compares after
				// every request and reports the first request whose effect is wrong under the same signature)
				if m, cl := w.Step(&setup[i], i == len(setup)-1); m != "" {
					gc := gcsCase{Store: store, Ops: setup[:i+1], CheckFrom: c11CheckFrom(i)}
					c.Violate(fmt.Sprintf("C11:%s:%s:%s", store, cl, c11Tag(&setup[i])), m+"\n  bucket contents: "+fmt.Sprintf("%q", names), gc, func() string {
						b, _ := json.Marshal(gc)
						s, _ := gcsReplay("C11", c11Tag)(c, b)
						return s
					})
					okSetup = false
					break
				}
			}
			if okSetup {
				hs := fmt.Sprint(w.Hash())
				for li := range lists {
					o := lists[li]
					m, cl := w.Step(&o, false)
					c.Eval(1)
					c.Trace(1)
					c.Trans(1)
					if m != "" {
						gc := gcsCase{Store: store, Ops: append(append([]GOp(nil), setup...), o), CheckFrom: c11CheckFrom(len(setup) - 1)}
						sig := fmt.Sprintf("C11:%s:%s:%s", store, cl, c11Tag(&o))
						c.Violate(sig, m+"\n  bucket contents: "+fmt.Sprintf("%q", names), gc, func() string {
							b, _ := json.Marshal(gc)
							s, _ := gcsReplay("C11", c11Tag)(c, b)
							return s
						})
						c.Outcome("violation:" + cl)
						continue
					}
					c.State(fw.Hash(hs, store, o.String()))
					c.Outcome(fmt.Sprintf("ok:%d-names", len(names)))
					if item%41 == 0 && li == 7 {
						c.Sample(map[string]interface{}{"store": store, "names": names, "request": o.String()})
					}
				}
			}
			// listings after the bucket changed under earlier listings (same instance): a metadata patch of the first object and
			// the deletion of the last one, then the first listings again and the whole state (items = metadata GET)
			if okSetup && len(names) > 0 && len(lists) > 0 {
				tail := []GOp{{Kind: "Patch", Bucket: "b", Name: names[0], PatchBody: []byte(`{"metadata":{"patched":"after-listing"},"contentType":"text/relisted"}`)}}
				if len(names) > 1 {
					tail = append(tail, GOp{Kind: "Delete", Bucket: "b", Name: names[len(names)-1]})
				}
				tail = append(tail, lists[0], lists[len(lists)/2], lists[len(lists)-1])
				for ti := range tail {
					o := tail[ti]
					m, cl := w.Step(&o, ti == len(tail)-1 || o.Kind != "List")
					c.Eval(1)
					c.Trans(1)
					if m != "" {
						ops := append(append(append([]GOp(nil), setup...), lists...), tail[:ti+1]...)
						gc := gcsCase{Store: store, Ops: ops, CheckFrom: c11CheckFrom(len(setup) - 1)}
						c.Violate(fmt.Sprintf("C11:%s:%s:relist:%s", store, cl, c11Tag(&o)), "after the listings, "+m+"\n  bucket contents: "+fmt.Sprintf("%q", names), gc, nil)
						break
					}
				}
			}
			w.Close()
		}
		if skipped > 0 {
			c.Bound(store+"_subsets_skipped_not_representable", skipped)
		}
	}
}
