package checks

import (
	"context"
	"encoding/json"
	"fmt"
	"sort"
	"time"

	"github.com/fullstorydev/emulators/storage/gcsutil"

	"verif/fw"
	"verif/sched"
)

// C19 — gcsutil lock map: mutual exclusion, cancellation safety, no deadlock, no leak.

type c19Param struct {
	Keys    [][]string `json:"keys"`                // per worker: the key of each round
	UseRun  bool       `json:"run"`                 // workers use Run instead of Lock/Unlock
	Cancel  int        `json:"cancel"`              // worker whose context a canceller thread cancels (-1: none)
	BadKey  string     `json:"bad"`                 // a thread that unlocks this key without holding it ("" none)
	PreCanc bool       `json:"precancel,omitempty"` // the cancellable context is already cancelled at start
}

func (p c19Param) name() string {
	s := ""
	for _, ks := range p.Keys {
		if s != "" {
			s += "|"
		}
		for _, k := range ks {
			s += k
		}
	}
	if p.UseRun {
		s += "+run"
	}
	if p.Cancel >= 0 {
		s += fmt.Sprintf("+cancel%d", p.Cancel)
		if p.PreCanc {
			s += "pre"
		}
	}
	if p.BadKey != "" {
		s += "+badunlock-" + p.BadKey
	}
	return s
}

func c19Scenario(p c19Param) *schedScenario {
	raw, _ := json.Marshal(p)
	return &schedScenario{Name: p.name(), Param: raw, Build: func() *schedInst { return c19Build(p) }}
}

func c19Build(p c19Param) *schedInst {
	m := gcsutil.NewTransientLockMap()
	nW := len(p.Keys)
	holder := map[string]int{}   // ghost: who is inside the critical section of a key (-1 none)
	busy := map[string]int{}     // ghost: callers between a successful Lock and the return of the matching Unlock
	want := make([]string, nW+2) // ghost: key a worker is currently trying to lock
	var viol []string
	var class string
	fail := func(cl, f string, a ...interface{}) {
		if class == "" {
			class = cl
		}
		viol = append(viol, fmt.Sprintf(f, a...))
	}
	excused := false // a bad Unlock legitimately released a lock somebody held: the caller broke the contract
	badActive := false
	acquiredDuringBad := false
	ctxs := make([]context.Context, nW)
	var cancel context.CancelFunc
	for i := range ctxs {
		ctxs[i] = context.Background()
	}
	if p.Cancel >= 0 {
		ctxs[p.Cancel], cancel = context.WithCancel(context.Background())
		if p.PreCanc {
			cancel()
		}
	}
	completed := make([]int, nW)
	refused := make([]int, nW)
	enter := func(w int, key string) {
		if excused {
			return
		}
		if h, ok := holder[key]; ok && h != -1 {
			fail("mutex", "worker %d entered the critical section of key %q while worker %d is inside", w, key, h)
		}
		holder[key] = w
		if badActive && key == p.BadKey {
			acquiredDuringBad = true
		}
	}
	worker := func(w int) func() {
		return func() {
			t := sched.Cur()
			for _, key := range p.Keys[w] {
				ctx := ctxs[w]
				if p.UseRun {
					want[w] = key
					err := m.Run(ctx, key, func(context.Context) error {
						want[w] = ""
						busy[key]++
						enter(w, key)
						t.Point("critical-section")
						holder[key] = -1
						return nil
					})
					want[w] = ""
					if err == nil {
						busy[key]--
						completed[w]++
					} else {
						refused[w]++
						if ctx.Err() == nil {
							fail("refused", "worker %d: Run(%q) returned %v although its context has not ended", w, key, err)
						}
					}
					continue
				}
				want[w] = key
				ok := m.Lock(ctx, key)
				want[w] = ""
				if !ok {
					refused[w]++
					if ctx.Err() == nil {
						fail("refused", "worker %d: Lock(%q) returned false although its context has not ended", w, key)
					}
					continue
				}
				busy[key]++
				enter(w, key)
				t.Point("critical-section")
				holder[key] = -1
				m.Unlock(key)
				busy[key]--
				completed[w]++
			}
		}
	}
	var threads []func()
	for w := 0; w < nW; w++ {
		threads = append(threads, worker(w))
	}
	if p.Cancel >= 0 && !p.PreCanc {
		threads = append(threads, func() {
			sched.Cur().Point("cancel")
			cancel()
		})
	}
	badPanicked, badReturned := false, false
	if p.BadKey != "" {
		threads = append(threads, func() {
			t := sched.Cur()
			t.Point("bad-unlock")
			heldAtCall := busy[p.BadKey] > 0
			badActive = true
			func() {
				defer func() {
					if r := recover(); r != nil {
						badPanicked = true
					}
				}()
				m.Unlock(p.BadKey)
				badReturned = true
			}()
			badActive = false
			if badReturned {
				if heldAtCall || acquiredDuringBad {
					excused = true // it released a lock that really was held: contract broken by the caller, nothing to judge
				} else {
					fail("badunlock", "Unlock(%q) of a key that nobody held returned normally instead of panicking", p.BadKey)
				}
			}
		})
	}
	inst := &schedInst{Threads: threads}
	inst.OnPoint = func(t *sched.Thread) {
		if excused {
			return
		}
		x := t.Exec()
		// no lost wake-up / independent keys never block each other: a worker that waits for the key's
		// channel inside Lock is waiting for a key that some other caller currently has. (Waiting for
		// the map's own mutex is not judged: whoever holds it is inside a short critical section - an
		// implementation may release the key inside that section - and a mutex that is never released
		// ends the execution in "no enabled thread".)
		for w := 0; w < nW; w++ {
			if want[w] != "" && x.ThreadWaitsOnChannel(w) && busy[want[w]] == 0 {
				fail("blocked", "worker %d is blocked in Lock(%q) although no caller holds that key", w, want[w])
			}
		}
		// every entry visible outside the map mutex has refcount >= 1
		x.InHook(func() {
			if es, ok := m.VerifEntries(); ok {
				for k, rc := range es {
					if rc < 1 {
						fail("refcount", "entry %q visible with refcount %d", k, rc)
					}
				}
			}
		})
	}
	inst.Verdict = func(x *sched.Exec) (string, string, string) {
		out := fmt.Sprintf("completed=%v refused=%v badpanic=%v excused=%v", completed, refused, badPanicked, excused)
		if excused {
			return "", "", "excused"
		}
		if x.Deadlock {
			var ws []string
			for w := 0; w < nW; w++ {
				if want[w] != "" {
					ws = append(ws, fmt.Sprintf("worker %d waits for %q (busy=%d)", w, want[w], busy[want[w]]))
				}
			}
			return "deadlock", fmt.Sprintf("deadlock: %v; %s", ws, out), "deadlock"
		}
		if class == "" {
			// quiescence: the map retains no entries; every worker finished every round unless refused
			es, ok := m.VerifEntries()
			if !ok {
				fail("leak", "map mutex still held at quiescence")
			} else if len(es) != 0 {
				var ks []string
				for k, v := range es {
					ks = append(ks, fmt.Sprintf("%s:%d", k, v))
				}
				sort.Strings(ks)
				fail("leak", "lock map retains entries at quiescence: %v", ks)
			}
			for w := 0; w < nW; w++ {
				if completed[w]+refused[w] != len(p.Keys[w]) {
					fail("incomplete", "worker %d finished %d+%d of %d rounds", w, completed[w], refused[w], len(p.Keys[w]))
				}
				if refused[w] > 0 && w != p.Cancel {
					fail("refused", "worker %d was refused although its context cannot end", w)
				}
			}
			if p.BadKey != "" && !badPanicked && !badReturned {
				fail("badunlock", "bad unlock thread neither panicked nor returned")
			}
		}
		if class != "" {
			return class, fmt.Sprintf("%v; %s", viol, out), "violation"
		}
		return "", "", out
	}
	return inst
}

func init() {
	fw.Register(&fw.Check{
		ID:    "C19",
		Level: "model_checking",
		Rule: "stateless model checking of the real TransientLockMap under a controlled scheduler: every interleaving (preemption-bounded DFS; unbounded for the 2-thread configurations) of k workers doing Lock/critical section/Unlock (or Run) rounds over keys {x,y} in EVERY key assignment, optionally with a canceller thread and a thread unlocking a key it does not hold; scheduling points are the implementation's own internal steps (map mutex, the channel select in Lock with the explorer choosing among ready cases, the select in Unlock, returnLockObj); " +
			"invariants on every state: <=1 holder per key, a blocked Lock implies the key is held, visible entries have refcount>=1; at the end: no deadlock, no refusal without an ended context, bad unlock panics, map empty",
		Assumptions: []string{
			"scheduling points are mutex and channel operations; code between two points runs atomically (sound for data-race-free code; C20 runs the race detector)",
			"an Unlock by a non-holder that happens while the key IS held releases that lock by contract; such executions are classified 'excused' and not judged",
		},
		Run:    runC19,
		Replay: replayC19,
		Budget: schedBudget(60*time.Second, 15*time.Minute),
	})
}

func replayC19(c *fw.Ctx, raw json.RawMessage) (string, string) {
	var cs schedCase
	if err := json.Unmarshal(raw, &cs); err != nil {
		return "bad-replay", err.Error()
	}
	var p c19Param
	if err := json.Unmarshal(cs.Param, &p); err != nil {
		return "bad-replay", err.Error()
	}
	_, class, detail, _ := runSchedOnce(c19Scenario(p), cs.Choices)
	if class == "" {
		return "", ""
	}
	return fmt.Sprintf("C19:%s:%s", cs.Scenario, class), detail
}

func runC19(c *fw.Ctx) {
	keys := []string{"x", "y"}
	var scen []c19Param
	// 2 workers x 1 round: every key assignment, unbounded
	for _, a := range keys {
		for _, b := range keys {
			for _, run := range []bool{false, true} {
				scen = append(scen, c19Param{Keys: [][]string{{a}, {b}}, UseRun: run, Cancel: -1})
				scen = append(scen, c19Param{Keys: [][]string{{a}, {b}}, UseRun: run, Cancel: 0})
				scen = append(scen, c19Param{Keys: [][]string{{a}, {b}}, UseRun: run, Cancel: 1, PreCanc: true})
			}
			scen = append(scen, c19Param{Keys: [][]string{{a}, {b}}, Cancel: -1, BadKey: "x"})
			scen = append(scen, c19Param{Keys: [][]string{{a}, {b}}, Cancel: -1, BadKey: "z"})
		}
	}
	n2 := len(scen)
	// 3 workers x 2 rounds x every key assignment (up to renaming of workers: sorted assignments), with/without cancellation
	var assigns [][]string
	for _, a := range keys {
		for _, b := range keys {
			assigns = append(assigns, []string{a, b})
		}
	}
	for i := range assigns {
		for j := i; j < len(assigns); j++ {
			for k := j; k < len(assigns); k++ {
				ks := [][]string{assigns[i], assigns[j], assigns[k]}
				scen = append(scen, c19Param{Keys: ks, Cancel: -1})
				scen = append(scen, c19Param{Keys: ks, Cancel: 0})
				scen = append(scen, c19Param{Keys: ks, Cancel: 2})
			}
		}
	}
	// 3 workers on one key, 1 round, with cancellation of the middle one and a bad unlock (hand-over while a waiter is cancelled)
	scen = append(scen,
		c19Param{Keys: [][]string{{"x"}, {"x"}, {"x"}}, Cancel: 1},
		c19Param{Keys: [][]string{{"x"}, {"x"}, {"x"}}, Cancel: 1, UseRun: true},
		c19Param{Keys: [][]string{{"x"}, {"x"}, {"x"}}, Cancel: -1, BadKey: "x"},
		c19Param{Keys: [][]string{{"x", "x"}, {"x", "x"}}, Cancel: 0},
		c19Param{Keys: [][]string{{"x", "y"}, {"y", "x"}}, Cancel: -1, BadKey: "y"},
	)
	bound3 := 2
	if c.Thorough() {
		bound3 = 3
	}
	for i, p := range scen {
		if !c.Mine(int64(i)) {
			continue
		}
		if c.Expired() {
			c.Incomplete("time budget reached before all scenarios were explored")
			break
		}
		sc := c19Scenario(p)
		if !selfCheckDeterminism(c, "C19", sc) {
			return
		}
		bound := bound3
		if i < n2 {
			bound = -1 // every interleaving
			if (p.BadKey != "" || (p.Cancel >= 0 && !p.PreCanc)) && !c.Thorough() {
				bound = 4 // a third thread (canceller / bad unlocker): quick tier bounds the preemptions
			}
		} else if !c.Thorough() && p.Cancel >= 0 && len(p.Keys) == 3 && len(p.Keys[0]) == 2 {
			bound = 1 // quick tier: 3 workers x 2 rounds + canceller
		}
		n := exploreScenario(c, "C19", sc, bound, 0)
		c.Note("execs:"+sc.Name, n)
	}
	c.Bound("scenarios", len(scen))
	c.Bound("preemption_bound_3_workers", bound3)
	c.Bound("two_worker_scenarios_unbounded", n2)
}
