package checks

import (
	"context"
	"encoding/json"
	"fmt"
	"net/url"
	"os"
	"path/filepath"
	"strconv"
	"strings"
	"time"

	"github.com/anishathalye/porcupine"
	"github.com/fullstorydev/emulators/storage/gcsemu"

	"verif/fw"
	"verif/gcs"
	"verif/sched"
	"verif/shim/vos"
	"verif/shim/vtime"
)

// C07 — GCS: concurrent operations on one object are atomic and serialisable.

// gcsOut is what a client observes of one operation.
type gcsOut struct {
	Status int          `json:"status"`
	View   *gcs.ObjView `json:"view,omitempty"` // object resource in the response (or from the headers of a media GET)
	Body   string       `json:"body,omitempty"`
	Panic  string       `json:"panic,omitempty"`
	Bad    string       `json:"bad,omitempty"` // malformed response
}

func (o gcsOut) String() string {
	s := fmt.Sprintf("%d", o.Status)
	if o.View != nil {
		s += fmt.Sprintf(" gen=%d metagen=%d md5=%s ct=%q meta=%v size=%d", o.View.Generation%100000, o.View.Metageneration, o.View.MD5, o.View.ContentType, o.View.Metadata, o.View.Size)
	}
	if o.Body != "" {
		s += fmt.Sprintf(" body=%q", o.Body)
	}
	return s + o.Bad + o.Panic
}

//go:norace
func pt07(tag string) {
	if t := sched.Cur(); t != nil {
		t.Point(tag)
	}
}

// gcsExecCtx is gcsExec for compose / copy requests issued with a cancellable client context.
func gcsExecCtx(ctx context.Context, d *gcs.Driver, o GOp) gcsOut {
	var r gcs.HTTPResp
	switch o.Kind {
	case "Compose":
		var srcs []gcs.ComposeSrc
		for _, s := range o.Srcs {
			srcs = append(srcs, gcs.ComposeSrc{Name: s.Name})
		}
		r = d.DoCtx(ctx, gcs.ReqCompose(o.Bucket, o.Name, srcs, &o.Meta, o.Conds))
	case "Copy":
		r = d.DoCtx(ctx, gcs.ReqCopy(o.Bucket, o.Name, o.DstBucket, o.DstName))
	default:
		panic("gcsExecCtx: " + o.Kind)
	}
	out := gcsOut{Status: r.Status, Panic: r.Panic}
	if r.Panic != "" || r.Status != 200 {
		return out
	}
	if o.Kind == "Copy" {
		var rr struct {
			Resource json.RawMessage `json:"resource"`
		}
		if err := json.Unmarshal(r.Body, &rr); err == nil {
			if v, err := gcs.ParseObject(rr.Resource); err == nil {
				out.View = v
			}
		}
		return out
	}
	if v, err := gcs.ParseObject(r.Body); err == nil {
		out.View = v
	}
	return out
}

// c07GenOf: a literal per-source generation ("" = none).
func c07GenOf(s string) int64 {
	n, _ := strconv.ParseInt(s, 10, 64)
	return n
}

// gcsExec performs one operation (conditions are concrete numbers) and decodes what came back.
func gcsExec(d *gcs.Driver, o GOp) gcsOut {
	var r gcs.HTTPResp
	switch o.Kind {
	case "Upload":
		switch o.Proto {
		case "media":
			r = d.Do(gcs.ReqUploadMedia(o.Bucket, o.Name, o.Data, o.Meta, o.Conds, false))
		case "multipart":
			r = d.Do(gcs.ReqUploadMultipart(o.Bucket, o.Name, o.Data, o.Meta, o.Conds, false))
		default:
			st := d.Do(gcs.ReqResumableStart(o.Bucket, o.Name, o.Meta, o.Conds))
			if st.Panic != "" || st.Status != 200 {
				return gcsOut{Status: st.Status, Panic: st.Panic}
			}
			u, err := url.Parse(st.Header.Get("Location"))
			if err != nil {
				return gcsOut{Status: st.Status, Bad: "bad Location"}
			}
			cr := fmt.Sprintf("bytes 0-%d/%d", len(o.Data)-1, len(o.Data))
			if len(o.Data) == 0 {
				cr = "bytes */0"
			}
			r = d.Do(gcs.ReqResumableChunk(u.RequestURI(), o.Data, cr, false, false))
		}
	case "Patch":
		r = d.Do(gcs.ReqPatch(o.Bucket, o.Name, o.PatchBody, o.Conds))
	case "Delete":
		r = d.Do(gcs.ReqDelete(o.Bucket, o.Name, o.Conds))
	case "Compose":
		var srcs []gcs.ComposeSrc
		for _, s := range o.Srcs {
			srcs = append(srcs, gcs.ComposeSrc{Name: s.Name, GenMatch: c07GenOf(s.Gen)})
		}
		r = d.Do(gcs.ReqCompose(o.Bucket, o.Name, srcs, &o.Meta, o.Conds))
	case "Copy":
		r = d.Do(gcs.ReqCopy(o.Bucket, o.Name, o.DstBucket, o.DstName))
	case "Get":
		r = d.Do(gcs.ReqGetMedia("json", o.Bucket, o.Name))
	case "GetMeta":
		r = d.Do(gcs.ReqGetMeta(o.Bucket, o.Name))
	default:
		panic("gcsExec: " + o.Kind)
	}
	out := gcsOut{Status: r.Status, Panic: r.Panic}
	if r.Panic != "" || r.Status != 200 {
		return out
	}
	switch o.Kind {
	case "Get":
		g, _ := strconv.ParseInt(r.Header.Get("X-Goog-Generation"), 10, 64)
		mg, _ := strconv.ParseInt(r.Header.Get("X-Goog-Metageneration"), 10, 64)
		out.View = &gcs.ObjView{Generation: g, Metageneration: mg, ContentType: r.Header.Get("Content-Type")}
		out.Body = string(r.Body)
	case "Copy":
		var rr struct {
			Resource json.RawMessage `json:"resource"`
		}
		if err := json.Unmarshal(r.Body, &rr); err != nil {
			out.Bad = " unparsable rewrite response"
			return out
		}
		v, err := gcs.ParseObject(rr.Resource)
		if err != nil {
			out.Bad = " unparsable rewrite resource"
			return out
		}
		out.View = v
	default:
		v, err := gcs.ParseObject(r.Body)
		if err != nil {
			out.Bad = " unparsable object resource"
			return out
		}
		out.View = v
	}
	return out
}

// gcsModelStep: one sequential step of the reference model, adopting the generation the
// implementation chose for a write (it must be fresh and greater than every earlier one).
func gcsModelStep(m *gcs.Model, o GOp, out gcsOut) (bool, *gcs.Model) {
	n := m.Clone()
	if out.Panic != "" || out.Bad != "" {
		return false, n
	}
	okStatus := func(e gcs.Expect) bool { return inInts(out.Status, e.Statuses) }
	switch o.Kind {
	case "Upload":
		e := n.ExpectUpload(o.Bucket, o.Name, o.Data, o.Meta, o.Conds)
		if !okStatus(e) {
			return false, n
		}
		if !e.Performed {
			return true, n
		}
		if out.View == nil || gcs.DiffView(*out.View, *e.View, true) != "" {
			return false, n
		}
		if n.CommitWrite(o.Bucket, o.Name, o.Data, *e.View, false, out.View.Generation) != "" {
			return false, n
		}
		return true, n
	case "Patch":
		e := n.ExpectPatch(o.Bucket, o.Name, o.PatchBody, o.Conds)
		if !okStatus(e) {
			return false, n
		}
		if !e.Performed {
			return true, n
		}
		if out.View == nil || gcs.DiffView(*out.View, *e.View, !n.Get(o.Bucket, o.Name).Composite) != "" {
			return false, n
		}
		n.CommitPatch(o.Bucket, o.Name, *e.View)
		return true, n
	case "Delete":
		e := n.ExpectDelete(o.Bucket, o.Name, o.Conds)
		if !okStatus(e) {
			return false, n
		}
		if e.Performed {
			n.CommitDelete(o.Bucket, o.Name)
		}
		return true, n
	case "Compose":
		var specs []gcs.SrcSpec
		for _, s := range o.Srcs {
			specs = append(specs, gcs.SrcSpec{Name: s.Name, GenMatch: c07GenOf(s.Gen)})
		}
		e := n.ExpectCompose(o.Bucket, o.Name, specs, &o.Meta, o.Conds)
		if !okStatus(e) {
			return false, n
		}
		if !e.Performed {
			return true, n
		}
		if out.View == nil || gcs.DiffView(*out.View, *e.View, false) != "" {
			return false, n
		}
		if n.CommitWrite(o.Bucket, o.Name, e.Body, *e.View, true, out.View.Generation) != "" {
			return false, n
		}
		return true, n
	case "Copy":
		e := n.ExpectCopy(o.Bucket, o.Name, o.DstBucket, o.DstName)
		if !okStatus(e) {
			return false, n
		}
		if !e.Performed {
			return true, n
		}
		comp := n.Get(o.Bucket, o.Name).Composite
		if out.View == nil || gcs.DiffView(*out.View, *e.View, !comp) != "" {
			return false, n
		}
		if n.CommitWrite(o.DstBucket, o.DstName, e.Body, *e.View, comp, out.View.Generation) != "" {
			return false, n
		}
		return true, n
	case "Get":
		obj := n.Get(o.Bucket, o.Name)
		if obj == nil {
			return out.Status == 404, n
		}
		v := n.View(o.Bucket, o.Name)
		return out.Status == 200 && out.View != nil && out.Body == string(obj.Content) && out.View.Generation == v.Generation &&
			out.View.Metageneration == v.Metageneration && out.View.ContentType == v.ContentType, n
	case "GetMeta":
		v := n.View(o.Bucket, o.Name)
		if v == nil {
			return out.Status == 404, n
		}
		return out.Status == 200 && out.View != nil && gcs.DiffView(*out.View, *v, !n.Get(o.Bucket, o.Name).Composite) == "", n
	}
	return false, n
}

func gcsStateKey(m *gcs.Model) string {
	var sb strings.Builder
	sb.WriteString(m.StateString())
	for b := range m.Buckets {
		for _, nme := range m.Names(b) {
			fmt.Fprintf(&sb, "%s/%s=%d;", b, nme, m.View(b, nme).Generation)
		}
	}
	return sb.String()
}

func gcsPorcupine(init *gcs.Model) porcupine.Model {
	return porcupine.Model{
		Init: func() interface{} { return init },
		Step: func(state, input, output interface{}) (bool, interface{}) {
			return gcsModelStep(state.(*gcs.Model), input.(GOp), output.(gcsOut))
		},
		Equal: func(a, b interface{}) bool { return gcsStateKey(a.(*gcs.Model)) == gcsStateKey(b.(*gcs.Model)) },
		DescribeOperation: func(input, output interface{}) string {
			return input.(GOp).String() + " -> " + output.(gcsOut).String()
		},
	}
}

type c07Param struct {
	Store   string     `json:"store"`
	Present bool       `json:"present"` // object x exists before the threads start
	Threads [][]string `json:"threads"` // op names per thread
}

func (p c07Param) name() string {
	var ts []string
	for _, t := range p.Threads {
		ts = append(ts, strings.Join(t, ","))
	}
	st := "absent"
	if p.Present {
		st = "present"
	}
	return fmt.Sprintf("%s:%s:%s", p.Store, st, strings.Join(ts, "|"))
}

// c07Op builds a named request against object b/x; g and mg are the generation and
// metageneration of x before the threads start.
func c07Op(name string, g, mg int64) GOp {
	gs, ms := strconv.FormatInt(g, 10), strconv.FormatInt(mg, 10)
	ct := gcs.ObjMeta{ContentType: "text/plain"}
	switch name {
	case "U0":
		return GOp{Kind: "Upload", Proto: "media", Bucket: "b", Name: "x", Data: []byte("AAA"), Meta: ct, Conds: map[string]string{"ifGenerationMatch": "0"}}
	case "U0m":
		return GOp{Kind: "Upload", Proto: "multipart", Bucket: "b", Name: "x", Data: []byte("BB"), Meta: gcs.ObjMeta{ContentType: "text/b", Metadata: map[string]string{"who": "b"}}, Conds: map[string]string{"ifGenerationMatch": "0"}}
	case "U0d":
		// create-if-absent by a client that declares the digest of its content; several clients send the very same bytes
		return GOp{Kind: "Upload", Proto: "multipart", Bucket: "b", Name: "x", Data: []byte("DUP"), Meta: gcs.ObjMeta{ContentType: "text/dup", Md5Hash: gcs.MD5b64([]byte("DUP"))}, Conds: map[string]string{"ifGenerationMatch": "0"}}
	case "Ug":
		return GOp{Kind: "Upload", Proto: "media", Bucket: "b", Name: "x", Data: []byte("CCCC"), Meta: gcs.ObjMeta{ContentType: "text/c"}, Conds: map[string]string{"ifGenerationMatch": gs}}
	case "Ugr":
		return GOp{Kind: "Upload", Proto: "resumable", Bucket: "b", Name: "x", Data: []byte("D"), Meta: gcs.ObjMeta{ContentType: "text/d", Metadata: map[string]string{"who": "d"}}, Conds: map[string]string{"ifGenerationMatch": gs}}
	case "U":
		return GOp{Kind: "Upload", Proto: "media", Bucket: "b", Name: "x", Data: []byte("EEEEE"), Meta: gcs.ObjMeta{ContentType: "text/e"}}
	case "Pm":
		return GOp{Kind: "Patch", Bucket: "b", Name: "x", PatchBody: []byte(`{"metadata":{"a":"1"}}`), Conds: map[string]string{"ifMetagenerationMatch": ms}}
	case "Pm2":
		return GOp{Kind: "Patch", Bucket: "b", Name: "x", PatchBody: []byte(`{"metadata":{"b":"2"},"contentType":"text/patched"}`), Conds: map[string]string{"ifMetagenerationMatch": ms}}
	case "P":
		return GOp{Kind: "Patch", Bucket: "b", Name: "x", PatchBody: []byte(`{"metadata":{"c":"3"}}`)}
	case "Pfull", "Pfull2":
		// compare-and-swap by a client that sends the whole resource back (version numbers included)
		who := "A"
		if name == "Pfull2" {
			who = "B"
		}
		return GOp{Kind: "Patch", Bucket: "b", Name: "x", PatchBody: []byte(fmt.Sprintf(`{"metadata":{"owner":%q},"metageneration":"%d","generation":"%d"}`, who, mg, g)), Conds: map[string]string{"ifMetagenerationMatch": ms}}
	case "Dg":
		return GOp{Kind: "Delete", Bucket: "b", Name: "x", Conds: map[string]string{"ifGenerationMatch": gs}}
	case "D":
		return GOp{Kind: "Delete", Bucket: "b", Name: "x"}
	case "Cg":
		return GOp{Kind: "Compose", Bucket: "b", Name: "x", Srcs: []GSrc{{Name: "y"}, {Name: "y"}}, Meta: gcs.ObjMeta{ContentType: "text/composed"}, Conds: map[string]string{"ifGenerationMatch": gs}}
	case "C0":
		return GOp{Kind: "Compose", Bucket: "b", Name: "x", Srcs: []GSrc{{Name: "y"}}, Meta: gcs.ObjMeta{ContentType: "text/composed"}, Conds: map[string]string{"ifGenerationMatch": "0"}}
	case "CPto":
		return GOp{Kind: "Copy", Bucket: "b", Name: "y", DstBucket: "b", DstName: "x"}
	case "CPfrom":
		return GOp{Kind: "Copy", Bucket: "b", Name: "x", DstBucket: "b", DstName: "z"}
	case "CPxfrom": // across buckets: the lock keys of source and destination name different buckets
		return GOp{Kind: "Copy", Bucket: "b", Name: "x", DstBucket: "b2", DstName: "z"}
	case "CPxto":
		return GOp{Kind: "Copy", Bucket: "b2", Name: "y", DstBucket: "b", DstName: "x"}
	case "Urz": // resumable sessions on OTHER objects, opened while another session is being opened
		return GOp{Kind: "Upload", Proto: "resumable", Bucket: "b", Name: "z", Data: []byte("ZZZ"), Meta: gcs.ObjMeta{ContentType: "text/z", Md5Hash: gcs.MD5b64([]byte("ZZZ"))}}
	case "Ury":
		return GOp{Kind: "Upload", Proto: "resumable", Bucket: "b", Name: "y", Data: []byte("YYYYY"), Meta: gcs.ObjMeta{ContentType: "text/y2", Md5Hash: gcs.MD5b64([]byte("YYYYY"))}}
	case "Cfromg": // the source is pinned to the generation it has before the threads start
		return GOp{Kind: "Compose", Bucket: "b", Name: "z", Srcs: []GSrc{{Name: "x", Gen: gs}, {Name: "y"}}, Meta: gcs.ObjMeta{ContentType: "text/cz"}}
	case "Cfrom":
		return GOp{Kind: "Compose", Bucket: "b", Name: "z", Srcs: []GSrc{{Name: "x"}, {Name: "x"}}, Meta: gcs.ObjMeta{ContentType: "text/cz"}}
	case "R":
		return GOp{Kind: "Get", Bucket: "b", Name: "x"}
	case "M":
		return GOp{Kind: "GetMeta", Bucket: "b", Name: "x"}
	}
	panic("c07Op " + name)
}

var c07Seq int

func c07Build(c *fw.Ctx, p c07Param) *schedInst {
	vtime.SetVirtual(1_700_000_000_000_000_000, 1)
	dir := ""
	if p.Store == "file" {
		c07Seq++
		dir = filepath.Join(c.Scratch, fmt.Sprintf("c07-%d", c07Seq))
		_ = os.MkdirAll(dir, 0o777)
		vos.Hook = func(phase, op, path string) {
			if phase == "pre" {
				if t := sched.Cur(); t != nil {
					t.Point("fs." + op)
				}
			}
		}
	} else {
		vos.Hook = nil
	}
	d := gcs.NewDriver(p.Store, dir, func(s gcsemu.Store) gcsemu.Store { return gcs.PointStore{Store: s} })
	model := gcs.NewModel()
	apply := func(o GOp) gcsOut {
		out := gcsExec(d, o)
		ok, n := gcsModelStep(model, o, out)
		if !ok {
			panic("c07 setup step not explained by the model: " + o.String() + " -> " + out.String())
		}
		model = n
		return out
	}
	if r := d.Do(gcs.ReqCreateBucket("b")); r.Status != 200 {
		panic("c07 setup: create bucket")
	}
	model.Buckets["b"] = map[string]*gcs.MObj{}
	if r := d.Do(gcs.ReqCreateBucket("b2")); r.Status != 200 {
		panic("c07 setup: create bucket b2")
	}
	model.Buckets["b2"] = map[string]*gcs.MObj{}
	apply(GOp{Kind: "Upload", Proto: "media", Bucket: "b2", Name: "y", Data: []byte("y-of-b2"), Meta: gcs.ObjMeta{ContentType: "text/y2"}})
	apply(GOp{Kind: "Upload", Proto: "multipart", Bucket: "b", Name: "y", Data: []byte("yy"), Meta: gcs.ObjMeta{ContentType: "text/y", Metadata: map[string]string{"of": "y"}}})
	var g, mg int64 = 0, 0
	if p.Present {
		out := apply(GOp{Kind: "Upload", Proto: "multipart", Bucket: "b", Name: "x", Data: []byte("orig"), Meta: gcs.ObjMeta{ContentType: "text/orig", Metadata: map[string]string{"o": "1"}}})
		g, mg = out.View.Generation, out.View.Metageneration
	}
	var hist []porcupine.Operation
	var clock int64
	do := func(client int, o GOp) {
		clock++
		call := clock
		out := gcsExec(d, o)
		clock++
		hist = append(hist, porcupine.Operation{ClientId: client, Input: o, Output: out, Call: call, Return: clock})
	}
	var threads []func()
	cctx, cancel := context.WithCancel(context.Background())
	doCtx := func(client int, o GOp) {
		// a request whose client goes away at some point: its response is not part of the history
		// (the client never sees it), but its effects are
		clock++
		call := clock
		cd := *d
		out := gcsExecCtx(cctx, &cd, o)
		clock++
		if out.Panic != "" {
			hist = append(hist, porcupine.Operation{ClientId: client, Input: o, Output: out, Call: call, Return: clock})
		} else if out.Status == 200 || out.Status == 204 {
			hist = append(hist, porcupine.Operation{ClientId: client, Input: o, Output: out, Call: call, Return: clock})
		}
	}
	for ti, names := range p.Threads {
		ti, names := ti, names
		threads = append(threads, func() {
			for _, nme := range names {
				if nme == "CancelCtx" {
					pt07("cancel")
					cancel()
					continue
				}
				if strings.HasSuffix(nme, "@ctx") {
					doCtx(ti, c07Op(strings.TrimSuffix(nme, "@ctx"), g, mg))
					continue
				}
				do(ti, c07Op(nme, g, mg))
			}
		})
	}
	_ = cancel
	inst := &schedInst{Threads: threads}
	inst.Verdict = func(x *sched.Exec) (string, string, string) {
		vos.Hook = nil
		defer func() {
			if dir != "" {
				_ = os.RemoveAll(dir)
			}
		}()
		// final reads close the history
		n := len(p.Threads)
		for _, o := range []GOp{{Kind: "GetMeta", Bucket: "b", Name: "x"}, {Kind: "Get", Bucket: "b", Name: "x"}, {Kind: "GetMeta", Bucket: "b", Name: "y"}, {Kind: "Get", Bucket: "b", Name: "z"}, {Kind: "GetMeta", Bucket: "b", Name: "z"}, {Kind: "Get", Bucket: "b2", Name: "z"}, {Kind: "GetMeta", Bucket: "b2", Name: "z"}, {Kind: "GetMeta", Bucket: "b2", Name: "y"}} {
			do(n, o)
		}
		outcome := ""
		for _, h := range hist {
			out := h.Output.(gcsOut)
			if out.Panic != "" {
				return "panic", "panic in " + h.Input.(GOp).String() + ": " + out.Panic, "panic"
			}
			if h.ClientId < n {
				outcome += fmt.Sprintf("%d/", out.Status)
			}
		}
		pm := gcsPorcupine(model)
		switch porcupine.CheckOperationsTimeout(pm, hist, 20*time.Second) {
		case porcupine.Ok:
			return "", "", outcome
		case porcupine.Unknown:
			return "", "", "porcupine-timeout"
		}
		return "nonlinearizable", "no serial order of the requests consistent with real time explains the responses and the final state:" + describeHistory(pm, hist), outcome
	}
	return inst
}

func c07Scenario(c *fw.Ctx, p c07Param) *schedScenario {
	raw, _ := json.Marshal(p)
	return &schedScenario{Name: p.name(), Param: raw, Build: func() *schedInst { return c07Build(c, p) }}
}

func init() {
	fw.Register(&fw.Check{
		ID:    "C07",
		Level: "model_checking",
		Rule: "stateless model checking of the real HTTP handlers under a controlled scheduler: every interleaving within the preemption bound of 2-3 HTTP clients on one object (uploads by every protocol conditioned on non-existence / on the current generation, patches conditioned on the metageneration, deletes, compose onto / from, copy onto / from, media and metadata GETs), for both stores; scheduling points: the lock map's mutex and channel select (explorer chooses the ready case), the memory store's mutexes, every Store call, and every file-system call of the file store; " +
			"oracle: linearizability of the recorded call/return history plus final reads against the sequential reference model (porcupine), with status, generation, metageneration, MD5, metadata and body as outputs",
		Assumptions: []string{"generations are adopted from the implementation's responses and must be fresh and increasing per name", "code between scheduling points is atomic (race detector side condition: C20)"},
		Run:         runC07,
		Replay:      replayC07,
		Budget:      schedBudget(75*time.Second, 20*time.Minute),
	})
}

func replayC07(c *fw.Ctx, raw json.RawMessage) (string, string) {
	var cs schedCase
	if err := json.Unmarshal(raw, &cs); err != nil {
		return "bad-replay", err.Error()
	}
	var p c07Param
	if err := json.Unmarshal(cs.Param, &p); err != nil {
		return "bad-replay", err.Error()
	}
	_, class, detail, _ := runSchedOnce(c07Scenario(c, p), cs.Choices)
	if class == "" {
		return "", ""
	}
	return fmt.Sprintf("C07:%s:%s", cs.Scenario, class), detail
}

func runC07(c *fw.Ctx) {
	var scen []c07Param
	absentOps := []string{"U0", "U0m", "U0d", "C0", "CPto", "CPxto", "R", "M", "D"}
	presentOps := []string{"Ug", "Ugr", "U", "Pm", "Pm2", "P", "Dg", "D", "Cg", "CPto", "CPfrom", "CPxfrom", "CPxto", "Cfrom", "Cfromg", "R", "M"}
	for _, store := range []string{"mem", "file"} {
		for i := range absentOps {
			for j := i; j < len(absentOps); j++ {
				if isRead(absentOps[i]) && isRead(absentOps[j]) {
					continue
				}
				scen = append(scen, c07Param{Store: store, Present: false, Threads: [][]string{{absentOps[i]}, {absentOps[j]}}})
			}
		}
		for i := range presentOps {
			for j := i; j < len(presentOps); j++ {
				if isRead(presentOps[i]) && isRead(presentOps[j]) {
					continue
				}
				scen = append(scen, c07Param{Store: store, Present: true, Threads: [][]string{{presentOps[i]}, {presentOps[j]}}})
			}
		}
		// triples and two-request threads
		scen = append(scen,
			c07Param{Store: store, Present: false, Threads: [][]string{{"U0"}, {"U0m"}, {"C0"}}},
			c07Param{Store: store, Present: false, Threads: [][]string{{"U0d"}, {"U0d"}, {"U0d"}}},
			c07Param{Store: store, Present: true, Threads: [][]string{{"Ug"}, {"Ugr"}, {"Dg"}}},
			c07Param{Store: store, Present: true, Threads: [][]string{{"Pm"}, {"Pm2"}, {"M"}}},
			c07Param{Store: store, Present: true, Threads: [][]string{{"Ug"}, {"Pm"}, {"R"}}},
			c07Param{Store: store, Present: true, Threads: [][]string{{"Ug", "R"}, {"Pm", "M"}}},
			c07Param{Store: store, Present: true, Threads: [][]string{{"D", "U0"}, {"Ug", "M"}}},
			c07Param{Store: store, Present: true, Threads: [][]string{{"Pfull"}, {"Pfull2"}}},
			// upload sessions opened concurrently must stay apart (ids, buffers), whatever objects they are for
			c07Param{Store: store, Present: true, Threads: [][]string{{"Ugr"}, {"Urz"}}},
			c07Param{Store: store, Present: true, Threads: [][]string{{"Urz"}, {"Ury"}}},
			c07Param{Store: store, Present: true, Threads: [][]string{{"Urz"}, {"Urz"}}},
			c07Param{Store: store, Present: false, Threads: [][]string{{"Urz"}, {"Ury"}, {"U0"}}},
			c07Param{Store: store, Present: true, Threads: [][]string{{"Pfull"}, {"Pm"}, {"M"}}},
			// a compose / copy whose client goes away while it waits for (or holds) the locks
			c07Param{Store: store, Present: true, Threads: [][]string{{"Ug"}, {"Cfrom@ctx"}, {"CancelCtx"}}},
			c07Param{Store: store, Present: true, Threads: [][]string{{"Pm"}, {"CPfrom@ctx"}, {"CancelCtx"}}},
			c07Param{Store: store, Present: true, Threads: [][]string{{"Dg"}, {"Cg@ctx"}, {"CancelCtx", "M"}}},
		)
	}
	for i, p := range scen {
		if !c.Mine(int64(i)) {
			continue
		}
		if c.Expired() {
			c.Incomplete("time budget reached before all scenarios were explored")
			break
		}
		sc := c07Scenario(c, p)
		if !selfCheckDeterminism(c, "C07", sc) {
			return
		}
		bound := 2
		if len(p.Threads) == 3 && !c.Thorough() && p.Threads[2][0] != "CancelCtx" {
			bound = 1
		}
		if c.Thorough() {
			bound = 3
		}
		n := exploreScenario(c, "C07", sc, bound, 0)
		c.Note("execs:"+sc.Name, n)
	}
	c.Bound("scenarios", len(scen))
}

func isRead(n string) bool { return n == "R" || n == "M" }
