package checks

import (
	"fmt"
	"time"

	"verif/fw"
	"verif/gcs"
)

// C15 — GCS: compose concatenates its sources in order; copy clones an object.

func c15Tag(o *GOp) string {
	switch o.Kind {
	case "Compose":
		t := fmt.Sprintf("Compose[%d]", len(o.Srcs))
		for _, s := range o.Srcs {
			if s.Name == o.Name {
				t += "+dst-among-srcs"
				break
			}
		}
		for _, s := range o.Srcs {
			if s.Name == "missing" {
				t += "+missing-src"
				break
			}
		}
		return t
	case "Copy":
		t := "Copy"
		if o.Bucket != o.DstBucket {
			t += "+xbucket"
		}
		if o.Name == o.DstName && o.Bucket == o.DstBucket {
			t += "+onto-itself"
		}
		for i, n := range c15DstNames {
			if n == o.DstName {
				t += fmt.Sprintf(":dst%d", i)
			}
		}
		return t
	}
	return o.Kind
}

var c15DstNames = []string{"x", "d/e", "x/o/y", "a b", "a.b", "o/o", "s1"}

func init() {
	fw.Register(&fw.Check{
		ID:    "C15",
		Level: "model_checking",
		Rule: "bounded-exhaustive enumeration on the real HTTP handler: every compose source list of length <=3 over {two objects, an empty object, a missing one} plus lists of 31/32/33 sources, x destination {new, nested name, one of the sources} x per-source generation match; every copy source {plain, with user metadata, empty, composite, missing} x destination name catalogue (containing '/', '/o/', spaces, dots) x {same, other bucket}; each followed by metadata patches of the result and of the source (sources and copies must stay independent later too); " +
			"after every request the response (resource, byte counts) and the complete state of every object are compared with the reference model; both stores",
		Assumptions: []string{"zero sources and a compose request without destination resource are not judged (statement: 1 to 32 sources; destination metadata from the request)", "componentCount is not compared", "composite objects: MD5 not constrained"},
		Run:         runC15,
		Replay:      gcsReplay("C15", c15Tag),
		Budget: func(tier string) time.Duration {
			if tier == "thorough" {
				return 15 * time.Minute
			}
			return 60 * time.Second
		},
	})
}

func runC15(c *fw.Ctx) {
	ct := gcs.ObjMeta{ContentType: "text/plain"}
	base := []GOp{
		{Kind: "CreateBucket", Bucket: "b"}, {Kind: "CreateBucket", Bucket: "b2"},
		{Kind: "Upload", Proto: "media", Bucket: "b", Name: "s1", Data: []byte("ONE-"), Meta: ct},
		{Kind: "Upload", Proto: "multipart", Bucket: "b", Name: "s2", Data: []byte("two"), Meta: gcs.ObjMeta{ContentType: "text/two", Metadata: map[string]string{"owner": "me", "k": "v"}, CacheControl: "no-cache"}},
		{Kind: "Upload", Proto: "media", Bucket: "b", Name: "e", Data: []byte{}, Meta: ct},
		{Kind: "Upload", Proto: "media", Bucket: "b2", Name: "other", Data: []byte("bystander"), Meta: ct},
	}
	patchOf := func(b, n string) GOp {
		return GOp{Kind: "Patch", Bucket: b, Name: n, PatchBody: []byte(`{"metadata":{"patched":"yes","k":"changed"},"contentType":"text/patched"}`)}
	}
	var item int64
	run := func(store string, ops []GOp, label string) {
		item++
		if !c.Mine(item) {
			return
		}
		all := append(append([]GOp(nil), base...), ops...)
		if ok, _ := tryGCS(c, "C15", gcsCase{Store: store, Ops: all}, c15Tag); ok {
			c.Outcome(label)
			if item%157 == 0 {
				c.Sample(map[string]interface{}{"store": store, "program": GOpsString(ops)})
			}
		}
	}
	srcNames := []string{"s1", "s2", "e", "missing"}
	var lists [][]GSrc
	var gen func(cur []GSrc, n int)
	gen = func(cur []GSrc, n int) {
		if len(cur) > 0 {
			lists = append(lists, append([]GSrc(nil), cur...))
		}
		if n == 0 {
			return
		}
		for _, s := range srcNames {
			gen(append(cur, GSrc{Name: s}), n-1)
		}
	}
	gen(nil, 3)
	rep := func(n int, names ...string) []GSrc {
		var out []GSrc
		for i := 0; i < n; i++ {
			out = append(out, GSrc{Name: names[i%len(names)]})
		}
		return out
	}
	lists = append(lists, rep(31, "s1", "s2"), rep(32, "s1"), rep(32, "s2", "e", "s1"), rep(33, "s1"), rep(33, "s1", "s2"), rep(40, "e"),
		[]GSrc{{Name: "s1", Gen: "cur"}, {Name: "s2", Gen: "cur"}}, []GSrc{{Name: "s1", Gen: "cur"}, {Name: "s2", Gen: "other"}}, []GSrc{{Name: "s1", Gen: "other"}})
	dmeta := gcs.ObjMeta{ContentType: "application/composed", Metadata: map[string]string{"made": "by-compose"}, ContentDisposition: "inline"}
	for _, store := range []string{"mem", "file"} {
		for _, srcs := range lists {
			for _, dst := range []string{"d", "d/e", "s1", "s2"} {
				if c.Expired() {
					c.Incomplete("time budget reached")
					return
				}
				comp := GOp{Kind: "Compose", Bucket: "b", Name: dst, Srcs: srcs, Meta: dmeta}
				run(store, []GOp{comp}, "compose")
				// the result is patched afterwards, then a source is patched: nothing else may change
				run(store, []GOp{comp, patchOf("b", dst), patchOf("b", "s2")}, "compose+patch")
			}
		}
		// compose of a composite, and destination metadata variants
		run(store, []GOp{{Kind: "Compose", Bucket: "b", Name: "c1", Srcs: []GSrc{{Name: "s1"}, {Name: "s2"}}, Meta: dmeta},
			{Kind: "Compose", Bucket: "b", Name: "c2", Srcs: []GSrc{{Name: "c1"}, {Name: "c1"}, {Name: "e"}}, Meta: gcs.ObjMeta{ContentType: "x/y"}},
			{Kind: "Compose", Bucket: "b", Name: "c1", Srcs: []GSrc{{Name: "c1"}, {Name: "c2"}}, Meta: gcs.ObjMeta{}}}, "compose-of-composite")
		// empty objects however they came to exist (media upload, resumable upload, compose of empty sources,
		// copy of one of those) are existing sources like any other
		er := GOp{Kind: "Upload", Proto: "resumable", Bucket: "b", Name: "er", Data: []byte{}, Meta: ct}
		ec := GOp{Kind: "Compose", Bucket: "b", Name: "ec", Srcs: []GSrc{{Name: "e"}, {Name: "e"}}, Meta: gcs.ObjMeta{ContentType: "x/empty"}}
		ecp := GOp{Kind: "Copy", Bucket: "b", Name: "ec", DstBucket: "b2", DstName: "ecp"}
		for _, srcs := range [][]GSrc{{{Name: "ec"}}, {{Name: "er"}}, {{Name: "ec"}, {Name: "s1"}, {Name: "er"}}, {{Name: "s1"}, {Name: "ec"}}, {{Name: "er"}, {Name: "ec"}, {Name: "e"}}} {
			run(store, []GOp{er, ec, {Kind: "Compose", Bucket: "b", Name: "z", Srcs: srcs, Meta: dmeta}}, "compose-from-empty")
			run(store, []GOp{er, ec, {Kind: "Compose", Bucket: "b", Name: "ec", Srcs: srcs, Meta: dmeta}, patchOf("b", "ec")}, "compose-from-empty")
		}
		run(store, []GOp{ec, ecp, {Kind: "Copy", Bucket: "b2", Name: "ecp", DstBucket: "b", DstName: "back"}, {Kind: "Compose", Bucket: "b", Name: "z", Srcs: []GSrc{{Name: "back"}, {Name: "s2"}}, Meta: dmeta}}, "compose-from-empty")
		run(store, []GOp{er, {Kind: "Copy", Bucket: "b", Name: "er", DstBucket: "b2", DstName: "x"}, {Kind: "Compose", Bucket: "b", Name: "er", Srcs: []GSrc{{Name: "er"}}, Meta: dmeta}, {Kind: "Compose", Bucket: "b", Name: "z", Srcs: []GSrc{{Name: "er"}, {Name: "er"}}, Meta: dmeta}}, "compose-from-empty")
		// copy
		srcPrep := map[string][]GOp{
			"s1": nil, "s2": nil, "e": nil, "missing": nil,
			"comp": {{Kind: "Compose", Bucket: "b", Name: "comp", Srcs: []GSrc{{Name: "s1"}, {Name: "s2"}}, Meta: dmeta}},
			"s2p":  {patchOf("b", "s2")},
		}
		for _, src := range []string{"s1", "s2", "e", "missing", "comp", "s2p"} {
			sname := src
			if src == "s2p" {
				sname = "s2"
			}
			for _, db := range []string{"b", "b2"} {
				for _, dn := range c15DstNames {
					if c.Expired() {
						c.Incomplete("time budget reached")
						return
					}
					cp := GOp{Kind: "Copy", Bucket: "b", Name: sname, DstBucket: db, DstName: dn}
					pre := srcPrep[src]
					run(store, append(append([]GOp(nil), pre...), cp), "copy")
					run(store, append(append([]GOp(nil), pre...), cp, patchOf(db, dn)), "copy+patch-copy")
					run(store, append(append([]GOp(nil), pre...), cp, patchOf("b", sname), GOp{Kind: "Delete", Bucket: "b", Name: sname}), "copy+patch-source+delete-source")
				}
			}
			// onto itself and from another bucket's missing bucket
			run(store, append(append([]GOp(nil), srcPrep[src]...), GOp{Kind: "Copy", Bucket: "b", Name: sname, DstBucket: "b", DstName: sname}), "copy-onto-itself")
		}
		run(store, []GOp{{Kind: "Copy", Bucket: "nobucket", Name: "s1", DstBucket: "b", DstName: "x"}}, "copy-missing-bucket")
		// chains: copy of a copy, overwrite by copy, compose from copies
		run(store, []GOp{{Kind: "Copy", Bucket: "b", Name: "s2", DstBucket: "b2", DstName: "c"}, {Kind: "Copy", Bucket: "b2", Name: "c", DstBucket: "b", DstName: "s1"},
			patchOf("b", "s1"), {Kind: "Compose", Bucket: "b", Name: "z", Srcs: []GSrc{{Name: "s1"}, {Name: "s2"}}, Meta: dmeta}}, "chain")
	}
	// histories: every sequence up to the depth bound over composes and copies that share sources and
	// destinations, overwrites and deletes (the complete state is compared after every step, so a later
	// operation that disturbs an earlier result is seen)
	alpha := []GOp{
		{Kind: "Compose", Bucket: "b", Name: "d1", Srcs: []GSrc{{Name: "s1"}, {Name: "s2"}}, Meta: dmeta},
		{Kind: "Compose", Bucket: "b", Name: "d2", Srcs: []GSrc{{Name: "s1"}, {Name: "e"}, {Name: "s1"}}, Meta: gcs.ObjMeta{ContentType: "x/d2"}},
		{Kind: "Compose", Bucket: "b", Name: "d1", Srcs: []GSrc{{Name: "s2"}, {Name: "s1"}}, Meta: dmeta},
		{Kind: "Compose", Bucket: "b", Name: "d3", Srcs: []GSrc{{Name: "d1"}, {Name: "s2"}}, Meta: gcs.ObjMeta{ContentType: "x/d3"}},
		{Kind: "Compose", Bucket: "b", Name: "s1", Srcs: []GSrc{{Name: "s1"}, {Name: "s2"}}, Meta: gcs.ObjMeta{ContentType: "x/s1"}},
		{Kind: "Copy", Bucket: "b", Name: "s1", DstBucket: "b", DstName: "c1"},
		{Kind: "Copy", Bucket: "b", Name: "d1", DstBucket: "b2", DstName: "c2"},
		{Kind: "Copy", Bucket: "b", Name: "s2", DstBucket: "b", DstName: "s1"},
		{Kind: "Copy", Bucket: "b", Name: "s1", DstBucket: "b", DstName: "s1"},
		{Kind: "Copy", Bucket: "b", Name: "s1", DstBucket: "b", DstName: "c1", Meta: gcs.ObjMeta{ContentType: "x/rewritten", Metadata: map[string]string{"rw": "1"}}},
		{Kind: "Upload", Proto: "media", Bucket: "b", Name: "s1", Data: []byte("1"), Meta: ct},
		{Kind: "Upload", Proto: "media", Bucket: "b", Name: "s1", Data: []byte("one-new-and-longer"), Meta: ct},
		{Kind: "Upload", Proto: "media", Bucket: "b", Name: "s2", Data: []byte("2"), Meta: ct},
		{Kind: "Delete", Bucket: "b", Name: "s1"},
		patchOf("b", "d1"), patchOf("b", "c1"),
		{Kind: "Compose", Bucket: "b", Name: "d4", Srcs: []GSrc{{Name: "e"}}, Meta: gcs.ObjMeta{ContentType: "x/d4"}},
		{Kind: "Compose", Bucket: "b", Name: "d1", Srcs: []GSrc{{Name: "d4"}, {Name: "s1"}}, Meta: dmeta},
		{Kind: "Copy", Bucket: "b", Name: "d4", DstBucket: "b", DstName: "e"},
	}
	depth := 4
	if c.Thorough() {
		depth = 5
	}
	for _, store := range []string{"mem", "file"} {
		gcsBFS(c, "C15", store, 1, base, alpha, depth, false, c15Tag, store+"_histories")
	}
	c.Bound("compose_source_lists", len(lists))
	c.Bound("copy_destination_names", c15DstNames)
}
