package checks

import (
	"bytes"
	"encoding/json"
	"fmt"
	"os"
	"os/exec"
	"path/filepath"
	"sort"
	"strconv"
	"strings"
	"syscall"
	"time"

	ldbstorage "github.com/syndtr/goleveldb/leveldb/storage"

	"verif/bt"
	"verif/fw"
	"verif/shim/vos"
	"verif/shim/vtime"
)

// C08 — disk storage recovers exactly the acknowledged state after a crash.
//
// A child process runs a request program on LeveldbDiskStorage and kills itself with SIGKILL at
// an enumerated point (request boundaries and every file-system call made by metadata
// persistence and table clear/create). The parent then starts the service on the directory and
// compares everything it serves with the model of the acknowledged requests.

type c08Seg struct {
	Ops  []bt.Op `json:"ops"`
	Kill int     `json:"kill"` // point index at which the process is killed; -1 = run to the end and exit
}

type c08Case struct {
	Segs []c08Seg `json:"segments"`
}

func init() {
	fw.RegisterChild("c08", c08Child)
	fw.Register(&fw.Check{
		ID:    "C08",
		Level: "fault_enumeration",
		Rule: "every request program up to the depth bound (BFS, dedup on model state) over {create tables with GC rules under two parents, single and multi-modification family changes, row writes, row deletes, read-modify-write, prefix and full DropRowRange, DeleteTable, re-create} x EVERY crash point of its last request (the request boundaries and a point before and after every file-system call made by metadata persistence, table create and table clear; thorough: each single unlink of the directory removal) with a REAL SIGKILL of the worker process (which serves through the public constructor NewServerWithOptions), followed by a restart on the directory through the same constructor; crash-restart chains: every kill strictly inside a schema/clear/create/delete request is followed by every second program of a catalogue (write; create; family drop; clear; write+clear; delete+create+write; create+write+prefix drop) with a clean stop (thorough: with further kills), kills around row writes by single-request second programs with kills; " +
			"oracle: start-up succeeds and tables, families with GC rules and all rows equal the model of the acknowledged requests, the in-flight request being wholly present or wholly absent; distinct = distinct (program, kill point)",
		Assumptions: []string{
			"crash model = process kill: completed system calls persist, nothing is torn inside one call (the statement speaks of stopping/killing the process, not of power loss)",
			"goleveldb's own atomicity of one Put/Delete under process kill and the kernel's atomic rename are trusted",
			"points between the row writes of one multi-row request are not crash points (the statement lists metadata persistence and clear/create)",
		},
		Run:    runC08,
		Replay: replayC08,
		Budget: schedBudget(150*time.Second, 30*time.Minute),
	})
}

// ---- child ---------------------------------------------------------------------------------------------

func c08Child(args []string) {
	// args: dir ackfile killpoint stepwise opsfile
	dir, ack, opsFile := args[0], args[1], args[4]
	kill, _ := strconv.Atoi(args[2])
	stepwise := args[3] == "1"
	b, err := os.ReadFile(opsFile)
	if err != nil {
		fmt.Fprintln(os.Stderr, err)
		os.Exit(3)
	}
	var ops []bt.Op
	if err := json.Unmarshal(b, &ops); err != nil {
		fmt.Fprintln(os.Stderr, err)
		os.Exit(3)
	}
	af, err := os.OpenFile(ack, os.O_WRONLY|os.O_APPEND|os.O_CREATE, 0o666)
	if err != nil {
		fmt.Fprintln(os.Stderr, err)
		os.Exit(3)
	}
	points := 0
	var labels []string
	point := func(label string) {
		if points == kill {
			_ = syscall.Kill(os.Getpid(), syscall.SIGKILL)
			select {}
		}
		points++
		labels = append(labels, label)
	}
	vtime.SetVirtual(1_700_000_000_000_000_000, 1)
	inRequest := false
	vos.Hook = func(phase, op, path string) {
		if !inRequest {
			return
		}
		// both before and after each call of the emulator's own code: what follows a call may be row writes (no
		// file-system call of the emulator), e.g. the purge after the definition has been renamed into place
		switch op {
		case "MkdirAll", "WriteFile", "Rename", "RemoveAll", "Remove", "unlink", "OpenFile+create":
			point(phase + ":" + op)
		}
	}
	// the same for the file-system calls goleveldb's own file storage makes (creating LOCK, LOG, MANIFEST-*,
	// CURRENT.*, the rename to CURRENT, journal rotation, removal of obsolete files): see cmd/vinstr -extra-os
	ldbstorage.VerifHook = func(phase, op, path string) {
		if inRequest && phase == "pre" {
			switch op {
			case "MkdirAll", "Rename", "Remove", "OpenFile+create", "Write", "Write+torn":
				// ("Write" / "Write+torn": before, and in the middle of, a write of 8 KiB or more - journal and table blocks)
				point("ldb:" + op)
			}
		}
	}
	if stepwise {
		vos.RemoveAllFn = func(p string) error { return stepwiseRemoveAll(p) }
	}
	// the serving process is the real thing: public constructor (loads what the directory holds),
	// listener, gRPC registration, background GC goroutine
	d, err := bt.NewDriverReal("disk", dir)
	if err != nil {
		fmt.Fprintln(os.Stderr, err)
		os.Exit(3)
	}
	for i := range ops {
		point(fmt.Sprintf("before-request-%d", i))
		inRequest = true
		r := d.Apply(&ops[i])
		inRequest = false
		code := r.Code
		if r.Panic != "" {
			code = "PANIC"
		}
		line := fmt.Sprintf("%d %s\n", i, code)
		if _, err := af.Write([]byte(line)); err != nil {
			os.Exit(3)
		}
	}
	point("after-last-ack")
	// clean stop
	d.Close()
	fmt.Printf("labels=%s\npoints=%d\n", strings.Join(labels, ","), points)
	os.Exit(0)
}

// stepwiseRemoveAll removes a tree one entry at a time, reporting every unlink as a point.
func stepwiseRemoveAll(p string) error {
	fi, err := os.Lstat(p)
	if err != nil {
		if os.IsNotExist(err) {
			return nil
		}
		return err
	}
	if fi.IsDir() {
		ents, err := os.ReadDir(p)
		if err != nil {
			return err
		}
		for _, e := range ents {
			if err := stepwiseRemoveAll(filepath.Join(p, e.Name())); err != nil {
				return err
			}
		}
	}
	if h := vos.Hook; h != nil {
		h("pre", "unlink", p)
	}
	return os.Remove(p)
}

// ---- parent --------------------------------------------------------------------------------------------

// runChild runs one segment in a child process; returns the acknowledged statuses, whether the
// child was killed, and the number of points it passed (only meaningful for kill = -1).
// c08Labels: the point labels of the most recent counting run (kill = -1) of runChild.
var c08Labels []string

func runChild(c *fw.Ctx, dir string, ops []bt.Op, kill int, stepwise bool) (acks []string, killed bool, points int, errText string) {
	opsFile := filepath.Join(c.Scratch, "c08-ops.json")
	ackFile := filepath.Join(c.Scratch, "c08-ack.txt")
	b, _ := json.Marshal(ops)
	_ = os.WriteFile(opsFile, b, 0o666)
	_ = os.Remove(ackFile)
	sw := "0"
	if stepwise {
		sw = "1"
	}
	cmd := exec.Command(os.Args[0], "child", "c08", dir, ackFile, strconv.Itoa(kill), sw, opsFile)
	var out, errb bytes.Buffer
	cmd.Stdout, cmd.Stderr = &out, &errb
	cmd.Env = append(os.Environ(), "GOMAXPROCS=2")
	err := cmd.Run()
	ab, _ := os.ReadFile(ackFile)
	for _, l := range strings.Split(strings.TrimSpace(string(ab)), "\n") {
		if f := strings.Fields(l); len(f) == 2 {
			acks = append(acks, f[1])
		}
	}
	if err != nil {
		if ee, ok := err.(*exec.ExitError); ok {
			if ws, ok := ee.Sys().(syscall.WaitStatus); ok && ws.Signaled() && ws.Signal() == syscall.SIGKILL {
				return acks, true, 0, ""
			}
		}
		return acks, false, 0, fmt.Sprintf("child failed: %v\n%s", err, tail2(errb.String(), 1500))
	}
	if i := strings.Index(out.String(), "labels="); i >= 0 {
		l := out.String()[i+7:]
		if j := strings.Index(l, "\n"); j >= 0 {
			l = l[:j]
		}
		c08Labels = strings.Split(l, ",")
	}
	if i := strings.Index(out.String(), "points="); i >= 0 {
		points, _ = strconv.Atoi(strings.TrimSpace(out.String()[i+7:]))
	}
	return acks, false, points, ""
}

func tail2(s string, n int) string {
	if len(s) > n {
		return s[len(s)-n:]
	}
	return s
}

// recoverAndCompare starts the service on dir and compares with the candidates; returns "" or a description.
func recoverAndCompare(c *fw.Ctx, dir string, cands []*bt.Model) (bad string) {
	var d *bt.Driver
	func() {
		defer func() {
			if r := recover(); r != nil {
				bad = fmt.Sprintf("starting the emulator again on the directory fails: %v", r)
			}
		}()
		var err error
		if d, err = bt.NewDriverReal("disk", dir); err != nil {
			bad = fmt.Sprintf("starting the emulator again on the directory fails: %v", err)
		}
	}()
	if bad != "" {
		return bad
	}
	defer d.Close()
	var firstBad string
	for _, m := range cands {
		w := &btWorld{drv: d, model: m, stateCheck: true, famCache: map[string][]string{}}
		b := w.CompareState()
		if b == "" {
			return ""
		}
		if firstBad == "" {
			firstBad = b
		}
	}
	return "recovered state differs from the acknowledged requests (and from acknowledged + in-flight): " + firstBad
}

// runC08Case executes the crash chain; returns a violation class + detail.
func runC08Case(c *fw.Ctx, cs c08Case, stepwise bool) (string, string) {
	c20Seq++
	dir := filepath.Join(c.Scratch, fmt.Sprintf("c08-%d", c20Seq))
	_ = os.MkdirAll(dir, 0o777)
	defer os.RemoveAll(dir)
	model := bt.NewModel()
	for si, seg := range cs.Segs {
		acks, killed, _, errText := runChild(c, dir, seg.Ops, seg.Kill, stepwise)
		if errText != "" {
			return "child", errText
		}
		c.Trans(int64(len(acks)) + 1) // requests executed by the serving process + the restart
		c.Trace(1)
		if seg.Kill >= 0 && !killed {
			// the kill point lies beyond the program: nothing to check for this index
			return "", "beyond"
		}
		// model of the acknowledged requests
		for i := range acks {
			if i >= len(seg.Ops) {
				break
			}
			want := model.Apply(&seg.Ops[i], nil, 0)
			if acks[i] == "PANIC" {
				return "panic", fmt.Sprintf("segment %d request %d (%s) panicked in the serving process", si, i, seg.Ops[i].String())
			}
			okWant := want.Code == "OK"
			okGot := acks[i] == "OK"
			if want.Ambiguous == "" && okWant != okGot {
				return "ack", fmt.Sprintf("segment %d request %d (%s) was answered %s, the model expects %s", si, i, seg.Ops[i].String(), acks[i], want.Code)
			}
		}
		cands := []*bt.Model{model}
		if killed && len(acks) < len(seg.Ops) {
			m2 := model.Clone()
			m2.Apply(&seg.Ops[len(acks)], nil, 0)
			cands = append(cands, m2)
		}
		if bad := recoverAndCompare(c, dir, cands); bad != "" {
			// defect-aware variant (known finding): a request that drops a family AND creates it again persists its
			// complete definition first and purges afterwards; a kill in between leaves the old cells visible in the new
			// family. That state is exactly "the request with drop+create of X replaced by update of X".
			if killed && len(acks) < len(seg.Ops) {
				if op2, ok := c08Unpurged(seg.Ops[len(acks)]); ok {
					m3 := model.Clone()
					m3.Apply(&op2, nil, 0)
					if recoverAndCompare(c, dir, []*bt.Model{m3}) == "" {
						return "recovery-unpurged-recreated-family", fmt.Sprintf("segment %d: after %d acknowledged requests, killed at point %d inside %s: the new definition is persisted but the cells of the dropped-and-re-created family are not purged yet, so they are served under the new family", si, len(acks), seg.Kill, seg.Ops[len(acks)].String())
					}
				}
			}
			inflight := "none"
			if killed && len(acks) < len(seg.Ops) {
				inflight = seg.Ops[len(acks)].String()
			}
			return "recovery", fmt.Sprintf("segment %d: after %d acknowledged requests (in flight: %s), kill point %d: %s", si, len(acks), inflight, seg.Kill, bad)
		}
		// which of the candidates holds decides how the next segment's model continues
		if len(cands) == 2 {
			d, err := bt.NewDriverReal("disk", dir)
			if err != nil {
				return "recovery", "second start on the directory fails: " + err.Error()
			}
			w := &btWorld{drv: d, model: cands[1], stateCheck: true, famCache: map[string][]string{}}
			if w.CompareState() == "" {
				model = cands[1]
			}
			d.Close()
		}
	}
	return "", ""
}

// c08Unpurged rewrites a ModifyColumnFamilies request that drops a family and creates it again into the request
// whose effect is "new definition, nothing purged for the re-created families" (drop X ... create X => update X).
func c08Unpurged(o bt.Op) (bt.Op, bool) {
	if o.Kind != "ModifyFamilies" {
		return o, false
	}
	var out []bt.Mod
	found := false
	dropAt := map[string]int{} // family -> index in out of its pending drop
	for _, m := range o.Mods {
		switch m.Op {
		case "drop":
			dropAt[m.ID] = len(out)
			out = append(out, m)
		case "create":
			if i, ok := dropAt[m.ID]; ok {
				out = append(out[:i:i], out[i+1:]...)
				for k, v := range dropAt {
					if v > i {
						dropAt[k] = v - 1
					}
				}
				delete(dropAt, m.ID)
				out = append(out, bt.Mod{ID: m.ID, Op: "update", GC: m.GC})
				found = true
			} else {
				out = append(out, m)
			}
		default:
			out = append(out, m)
		}
	}
	o.Mods = out
	return o, found
}

func replayC08(c *fw.Ctx, raw json.RawMessage) (string, string) {
	var cs c08Case
	if err := json.Unmarshal(raw, &cs); err != nil {
		return "bad-replay", err.Error()
	}
	cl, d := runC08Case(c, cs, c.Thorough())
	if cl == "" {
		return "", ""
	}
	return "C08:" + cl + ":" + c08Tag(cs), d
}

func c08Tag(cs c08Case) string {
	last := cs.Segs[len(cs.Segs)-1]
	o := last.Ops[len(last.Ops)-1]
	t := c14Tag(&o)
	if len(cs.Segs) > 1 {
		t = fmt.Sprintf("chain%d:", len(cs.Segs)) + t
	}
	return t
}

func c08Alphabet() []bt.Op {
	mv := func(n int32) *bt.GC { return &bt.GC{Kind: "maxver", N: n} }
	un := &bt.GC{Kind: "union", Subs: []*bt.GC{mv(2), {Kind: "maxage", AgeSec: 3600}}}
	mod := func(mods ...bt.Mod) bt.Op { return bt.Op{Kind: "ModifyFamilies", Table: tblT, Mods: mods} }
	return []bt.Op{
		{Kind: "CreateTable", Parent: parentI, TableID: "t", Fams: map[string]*bt.GC{"f": mv(1), "g": un}},
		{Kind: "CreateTable", Parent: parentJ, TableID: "t", Fams: map[string]*bt.GC{"f": nil}},
		{Kind: "MutateRow", Table: tblT, Key: []byte("a"), Muts: []bt.Mut{mset("f", "c", 1000, "v"), mset("g", "c", 1000, "w")}},
		{Kind: "MutateRow", Table: tblT, Key: []byte("ab"), Muts: []bt.Mut{mset("g", "c", 2000, "x")}},
		{Kind: "MutateRow", Table: tblJT, Key: []byte("a"), Muts: []bt.Mut{mset("f", "c", 1000, "j")}},
		{Kind: "MutateRow", Table: tblT, Key: []byte("a"), Muts: []bt.Mut{{Kind: "delrow"}}},
		{Kind: "RMW", Table: tblT, Key: []byte("b"), Rules: []bt.Rule{{Fam: "f", Qual: []byte("n"), IsInc: true, Inc: 1}}},
		mod(bt.Mod{ID: "h", Op: "create", GC: mv(3)}),
		mod(bt.Mod{ID: "g", Op: "drop"}),
		mod(bt.Mod{ID: "f", Op: "update", GC: un}),
		mod(bt.Mod{ID: "h", Op: "create"}, bt.Mod{ID: "f", Op: "drop"}),
		mod(bt.Mod{ID: "h", Op: "create"}, bt.Mod{ID: "g", Op: "create"}), // fails when g exists
		{Kind: "DropRowRange", Table: tblT, Prefix: []byte("a")},
		{Kind: "DropRowRange", Table: tblT, All: true},
		{Kind: "DeleteTable", Table: tblT},
		{Kind: "DeleteTable", Table: tblJT},
		mod(bt.Mod{ID: "g", Op: "drop"}, bt.Mod{ID: "f", Op: "update", GC: mv(2)}),
		mod(bt.Mod{ID: "f", Op: "update", GC: mv(3)}, bt.Mod{ID: "g", Op: "drop"}, bt.Mod{ID: "g", Op: "create", GC: mv(1)}),
	}
}

func runC08(c *fw.Ctx) {
	alpha := c08Alphabet()
	depth := 3
	stepwise := false
	if c.Thorough() {
		depth = 4
		stepwise = true
	}
	// BFS over programs on the model alone (the implementation's agreement with the model on clean
	// runs is what the other checks establish; here every program is run for real in the child).
	type prog struct {
		seq []int
	}
	// two roots ("start from non-initial states too"): the empty directory, and a table that already holds rows in
	// two families (so that what a delete / clear / re-create leaves behind or resurrects is visible one request
	// earlier). Quick tier: from the populated root one request, plus the two-request sequences that re-use a name
	// or a family; thorough: the full BFS from both roots.
	base := []int{0, 2, 3}
	frontier := []prog{{}, {seq: base}}
	seen := map[string]bool{}
	var all []prog
	fromBase := func(seq []int) bool { return len(seq) >= len(base) && fmt.Sprint(seq[:len(base)]) == fmt.Sprint(base) }
	reuse := map[[2]int]bool{{14, 0}: true, {13, 2}: true, {8, 7}: true, {8, 17}: true, {14, 1}: true, {12, 3}: true}
	for d := 1; d <= depth; d++ {
		var next []prog
		for _, p := range frontier {
			if fromBase(p.seq) && !c.Thorough() && len(p.seq)-len(base) >= 2 {
				continue
			}
			for k := range alpha {
				if fromBase(p.seq) && !c.Thorough() && len(p.seq)-len(base) == 1 && !reuse[[2]int{p.seq[len(p.seq)-1], k}] {
					continue
				}
				ns := append(append([]int(nil), p.seq...), k)
				m := bt.NewModel()
				// what a deleted table leaves on disk is state too (its data directory stays until the name is
				// re-used): two programs are merged only if they also agree on which names were created, written
				// and deleted before
				residue := map[string]string{}
				note := func(o *bt.Op) {
					switch o.Kind {
					case "CreateTable":
						residue[o.Parent+"/tables/"+o.TableID] = "fresh"
					case "MutateRow", "RMW":
						if _, ok := m.Tables[o.Table]; ok {
							residue[o.Table] = "rows"
						}
					case "DropRowRange":
						if _, ok := m.Tables[o.Table]; ok && o.All {
							residue[o.Table] = "cleared"
						}
					}
				}
				resKey := func() string {
					var ks []string
					for t, v := range residue {
						if _, live := m.Tables[t]; !live {
							ks = append(ks, t+"="+v)
						}
					}
					sort.Strings(ks)
					return strings.Join(ks, ",")
				}
				for _, x := range p.seq {
					note(&alpha[x])
					m.Apply(&alpha[x], nil, 0)
				}
				pre := m.StateString() + "#" + resKey()
				note(&alpha[k])
				m.Apply(&alpha[k], nil, 0)
				// one program per (state before the last request, last request)
				key := pre + "|" + alpha[k].String()
				if seen[key] {
					continue
				}
				seen[key] = true
				all = append(all, prog{ns})
				skey := m.StateString() + "#" + resKey()
				if !seen["S"+skey] {
					seen["S"+skey] = true
					next = append(next, prog{ns})
				}
			}
		}
		frontier = next
	}
	c.Bound("programs", len(all))
	c.Bound("depth", depth)
	var item int64
	for _, p := range all {
		item++
		if !c.Mine(item) {
			continue
		}
		if c.Expired() {
			c.Incomplete("time budget reached before all (program, kill point) pairs were executed")
			break
		}
		ops := make([]bt.Op, len(p.seq))
		for i, x := range p.seq {
			ops[i] = alpha[x]
		}
		// count the points of the whole program and of its prefix without the last request
		c20Seq++
		dir := filepath.Join(c.Scratch, fmt.Sprintf("c08-count-%d", c20Seq))
		_ = os.MkdirAll(dir, 0o777)
		_, _, total, errText := runChild(c, dir, ops, -1, stepwise)
		labels := append([]string(nil), c08Labels...)
		os.RemoveAll(dir)
		if errText != "" {
			c.InternalError("C08 child: " + errText)
			return
		}
		before := 0
		if len(ops) > 1 {
			c20Seq++
			dir2 := filepath.Join(c.Scratch, fmt.Sprintf("c08-count-%d", c20Seq))
			_ = os.MkdirAll(dir2, 0o777)
			_, _, t2, e2 := runChild(c, dir2, ops[:len(ops)-1], -1, stepwise)
			os.RemoveAll(dir2)
			if e2 != "" {
				c.InternalError("C08 child: " + e2)
				return
			}
			before = t2 - 1 // the prefix's "after-last-ack" point is the last request's "before" point
		}
		// clean stop + restart, then every kill point of the last request
		kills := []int{-1}
		for k := before; k < total; k++ {
			kills = append(kills, k)
		}
		for _, k := range kills {
			cs := c08Case{Segs: []c08Seg{{Ops: ops, Kill: k}}}
			cl, dtl := runC08Case(c, cs, stepwise)
			c.Eval(1)
			if dtl == "beyond" {
				continue
			}
			c.State(fw.Hash(fmt.Sprint(p.seq), fmt.Sprint(k)))
			c.Outcome(fmt.Sprintf("kill-in:%s", c14Tag(&ops[len(ops)-1])))
			if cl != "" {
				c.Violate("C08:"+cl+":"+c08Tag(cs), dtl+"\n  program: "+bt.OpsString(ops), cs, func() string {
					cl2, _ := runC08Case(c, cs, stepwise)
					if cl2 == "" {
						return ""
					}
					return "C08:" + cl2 + ":" + c08Tag(cs)
				})
				continue
			}
			if item%13 == 0 && k == before+1 {
				c.Sample(map[string]interface{}{"program": bt.OpsString(ops), "kill_point": k, "points_in_program": total})
			}
			// crash chain: after the kill, a second program with its own kill points. Every kill inside a
			// request that touches the file system directly (schema changes, clear, create, delete) is
			// followed by every second program; kills around plain row writes only for short programs.
			lastKind := ops[len(ops)-1].Kind
			fsReq := lastKind == "CreateTable" || lastKind == "DeleteTable" || lastKind == "ModifyFamilies" || (lastKind == "DropRowRange" && ops[len(ops)-1].All)
			inRequest := k > before && k < total-1 // strictly inside the last request (a kill at a request boundary leaves nothing half-done)
			// leveldb-internal points are killed once each; the crash-restart CHAINS hang off the points of the
			// emulator's own file-system calls (and the first leveldb point, as a representative)
			own := k >= 0 && k < len(labels) && (!strings.HasPrefix(labels[k], "ldb:") || k == 0 || !strings.HasPrefix(labels[k-1], "ldb:"))
			deep := fsReq && inRequest && own
			legacy := (len(p.seq) <= 2 || c.Thorough()) && item%4 == 0
			if k >= 0 && (deep || legacy) {
				seconds := [][]bt.Op{{alpha[2]}, {alpha[0]}, {alpha[8]}, {alpha[13]}}
				if deep {
					seconds = append(seconds,
						[]bt.Op{alpha[2], alpha[13]},           // write, then clear: the clear must not be defeated by what the crash left behind
						[]bt.Op{alpha[14], alpha[0], alpha[2]}, // delete, re-create, write
						[]bt.Op{alpha[0], alpha[3], alpha[12]}) // (re-)create, write, prefix drop
				}
				for _, sec := range seconds {
					k2s := []int{-1}
					switch {
					case len(sec) == 1 && legacy:
						k2s = []int{-1, 1, 2, 3}
					case len(sec) > 1 && c.Thorough():
						k2s = []int{-1, 2, 4, 6, 8}
					}
					for _, k2 := range k2s {
						cs2 := c08Case{Segs: []c08Seg{{Ops: ops, Kill: k}, {Ops: sec, Kill: k2}}}
						cl2, d2 := runC08Case(c, cs2, stepwise)
						c.Eval(1)
						if d2 == "beyond" {
							continue
						}
						c.State(fw.Hash(fmt.Sprint(p.seq), fmt.Sprint(k, k2), bt.OpsString(sec)))
						if cl2 != "" {
							c.Violate("C08:"+cl2+":"+c08Tag(cs2), d2+"\n  program: "+bt.OpsString(ops)+" || then "+bt.OpsString(sec), cs2, nil)
						}
					}
				}
			}
		}
	}
	// rows larger than the blocks leveldb writes its journal in (32 KiB): the record of one acknowledged or in-flight
	// write spans several write calls, each of which is a crash point before it and in its middle (a torn write)
	big := func(tag byte, n int) string {
		b := make([]byte, n)
		for i := range b {
			b[i] = tag + byte(i%23)
		}
		return string(b)
	}
	manyRows := func(lo, hi int) bt.Op {
		o := bt.Op{Kind: "MutateRows", Table: tblT}
		for i := lo; i < hi; i++ {
			o.Entries = append(o.Entries, bt.Entry{Key: []byte(fmt.Sprintf("row%06d", i)), Muts: []bt.Mut{mset("f", "c", 1000, "v")}})
		}
		return o
	}
	bigPut := func(key string, tag byte, n int) bt.Op {
		return bt.Op{Kind: "MutateRow", Table: tblT, Key: []byte(key), Muts: []bt.Mut{mset("f", "big", 1000, big(tag, n))}}
	}
	for bi, ops := range [][]bt.Op{
		{alpha[0], alpha[2], bigPut("b", 'A', 100_000)},
		{alpha[0], bigPut("b", 'A', 100_000), alpha[2]},
		{alpha[0], bigPut("b", 'A', 70_000), bigPut("b", 'N', 40_000)},
		{alpha[0], alpha[2], bigPut("b", 'A', 33_000), {Kind: "DropRowRange", Table: tblT, Prefix: []byte("b")}},
		// shapes of the registry the alphabet does not reach: the LAST family of a table dropped (the persisted
		// definition has no family while rows may still hold its cells); two tables in ONE instance directory, a schema
		// change of the one that sorts first / last killed while its scratch file exists
		{{Kind: "CreateTable", Parent: parentI, TableID: "s", Fams: map[string]*bt.GC{"g": nil}},
			{Kind: "MutateRow", Table: parentI + "/tables/s", Key: []byte("a"), Muts: []bt.Mut{mset("g", "c", 1000, "1")}},
			{Kind: "MutateRow", Table: parentI + "/tables/s", Key: []byte("ab"), Muts: []bt.Mut{mset("g", "c", 2000, "2")}},
			{Kind: "ModifyFamilies", Table: parentI + "/tables/s", Mods: []bt.Mod{{ID: "g", Op: "drop"}}}},
		{alpha[0], {Kind: "CreateTable", Parent: parentI, TableID: "u", Fams: map[string]*bt.GC{"f": nil}},
			{Kind: "MutateRow", Table: parentI + "/tables/u", Key: []byte("a"), Muts: []bt.Mut{mset("f", "c", 1000, "u")}}, alpha[2], alpha[9]},
		{alpha[0], {Kind: "CreateTable", Parent: parentI, TableID: "u", Fams: map[string]*bt.GC{"f": nil}}, alpha[2],
			{Kind: "ModifyFamilies", Table: parentI + "/tables/u", Mods: []bt.Mod{{ID: "h", Op: "create"}}}},
		{alpha[0], alpha[2], {Kind: "CreateTable", Parent: parentI, TableID: "a", Fams: map[string]*bt.GC{"f": nil}}},
		// a table of 10 000 rows dropped as a whole: however the storage removes the rows (the record of the removal spans
		// several journal blocks), a kill inside the request leaves all rows or none
		{alpha[0], manyRows(0, 5000), manyRows(5000, 10000), {Kind: "DropRowRange", Table: tblT, All: true}},
		{alpha[0], manyRows(0, 5000), manyRows(5000, 10000), {Kind: "DropRowRange", Table: tblT, All: true}, alpha[2]},
	} {
		item++
		if !c.Mine(item) {
			continue
		}
		if c.Expired() {
			c.Incomplete("time budget reached in the large-row pass")
			break
		}
		count := func(o []bt.Op) (int, string) {
			c20Seq++
			dir := filepath.Join(c.Scratch, fmt.Sprintf("c08-count-%d", c20Seq))
			_ = os.MkdirAll(dir, 0o777)
			defer os.RemoveAll(dir)
			_, _, t, e := runChild(c, dir, o, -1, stepwise)
			return t, e
		}
		total, e1 := count(ops)
		t2, e2 := count(ops[:len(ops)-1])
		if e1 != "" || e2 != "" {
			c.InternalError("C08 child: " + e1 + e2)
			return
		}
		for k := t2 - 1; k < total; k++ {
			cs := c08Case{Segs: []c08Seg{{Ops: ops, Kill: k}}}
			cl, dtl := runC08Case(c, cs, stepwise)
			c.Eval(1)
			if dtl == "beyond" {
				continue
			}
			c.State(fw.Hash("large-row", fmt.Sprint(bi, k)))
			c.Outcome(fmt.Sprintf("kill-in:extra-program-%d", bi))
			if cl != "" {
				if len(dtl) > 1500 {
					dtl = dtl[:1500] + "…"
				}
				c.Violate("C08:"+cl+":extra-program:"+c08Tag(cs), dtl+fmt.Sprintf("\n  extra program %d (large rows / registry shapes), kill point %d", bi, k), cs, func() string {
					cl2, _ := runC08Case(c, cs, stepwise)
					if cl2 == "" {
						return ""
					}
					return "C08:" + cl2 + ":extra-program:" + c08Tag(cs)
				})
			}
		}
	}
	// after a clean stop and a start, EVERY kind of request must work on what was loaded from disk (tables created
	// without families, with families, with rows): one restart, then each request of the alphabet
	noFam := bt.Op{Kind: "CreateTable", Parent: parentI, TableID: "t"}
	for si, first := range [][]bt.Op{{noFam}, {alpha[0], alpha[2]}, {alpha[0], alpha[2], alpha[8]}} {
		for k := range alpha {
			item++
			if !c.Mine(item) {
				continue
			}
			cs := c08Case{Segs: []c08Seg{{Ops: first, Kill: -1}, {Ops: []bt.Op{alpha[k], alpha[2]}, Kill: -1}}}
			cl, dtl := runC08Case(c, cs, stepwise)
			c.Eval(1)
			c.State(fw.Hash("post-restart", fmt.Sprint(si, k)))
			c.Outcome("post-restart:" + c14Tag(&alpha[k]))
			if cl != "" {
				c.Violate("C08:"+cl+":post-restart:"+c08Tag(cs), dtl+"\n  program: "+bt.OpsString(first)+" || restart || "+bt.OpsString(cs.Segs[1].Ops), cs, func() string {
					cl2, _ := runC08Case(c, cs, stepwise)
					if cl2 == "" {
						return ""
					}
					return "C08:" + cl2 + ":post-restart:" + c08Tag(cs)
				})
			}
		}
	}
	// sibling tables whose ids extend another table's id by a suffix the disk storage might use for its own scratch
	// names (table ids may contain dots): clearing, deleting or re-creating one table must not touch the other
	for _, suffix := range []string{".deleted", ".new", ".table.proto.tmp", ".tmp", ".table.proto", ".v2", "-2"} {
		for vi, variant := range [][]bt.Op{
			{{Kind: "DropRowRange", Table: tblT, All: true}},
			{{Kind: "DeleteTable", Table: tblT}, alpha[0]},
			{{Kind: "DeleteTable", Table: tblT}},
		} {
			item++
			if !c.Mine(item) {
				continue
			}
			sib := tblT + suffix
			ops := []bt.Op{alpha[0],
				{Kind: "CreateTable", Parent: parentI, TableID: "t" + suffix, Fams: map[string]*bt.GC{"f": nil}},
				{Kind: "MutateRow", Table: sib, Key: []byte("a"), Muts: []bt.Mut{mset("f", "c", 1000, "sibling")}},
				alpha[2]}
			ops = append(ops, variant...)
			ops = append(ops, bt.Op{Kind: "MutateRow", Table: sib, Key: []byte("b"), Muts: []bt.Mut{mset("f", "c", 1000, "after")}})
			cs := c08Case{Segs: []c08Seg{{Ops: ops, Kill: -1}}}
			cl, dtl := runC08Case(c, cs, stepwise)
			c.Eval(1)
			c.State(fw.Hash("sibling", suffix, fmt.Sprint(vi)))
			c.Outcome("sibling-id" + suffix)
			if cl != "" {
				c.Violate("C08:"+cl+":sibling-id"+suffix+":"+c08Tag(cs), dtl+"\n  program: "+bt.OpsString(ops), cs, func() string {
					cl2, _ := runC08Case(c, cs, stepwise)
					if cl2 == "" {
						return ""
					}
					return "C08:" + cl2 + ":sibling-id" + suffix + ":" + c08Tag(cs)
				})
			}
		}
	}

}
