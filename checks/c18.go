package checks

import (
	"encoding/json"
	"fmt"
	"os"
	"path/filepath"
	"sort"
	"strings"
	"time"

	btpb "cloud.google.com/go/bigtable/apiv2/bigtablepb"
	"github.com/fullstorydev/emulators/bigtable/bttest"
	"google.golang.org/protobuf/proto"

	"verif/bt"
	"verif/fw"
	"verif/sched"
)

// C18 — scans stay sane while the table is being written (leveldb engines).

type c18Param struct {
	Engine  string    `json:"engine"`
	Scan    bt.Op     `json:"scan"`
	Writers [][]bt.Op `json:"writers"`
	Big     []string  `json:"big"`            // rows holding >1024 cells (each forces a Send, i.e. a lock release, after it)
	Pre     []bt.Op   `json:"pre,omitempty"`  // requests applied (sequentially) after the fixture is in place
	Fill    int       `json:"fill,omitempty"` // additional one-cell rows f000..f<Fill-1> (scans longer than any batching constant)
}

// c18Keys is the key universe of a scenario: the fixture rows plus every row a writer may create.
func c18Keys(p c18Param) []string {
	ks := []string{"0", "a", "b", "bb", "c", "cc", "d", "e", "z"}
	for i := 0; i < p.Fill; i++ {
		ks = append(ks, fmt.Sprintf("f%03d", i))
	}
	sort.Strings(ks)
	return ks
}

func (p c18Param) name() string {
	var ws []string
	for _, w := range p.Writers {
		var os []string
		for _, o := range w {
			os = append(os, c06OpName(o)+"("+keysOf(o)+")")
		}
		ws = append(ws, strings.Join(os, ","))
	}
	sc := "all"
	if p.Scan.HasRowSet {
		sc = fmt.Sprintf("ranges%d", len(p.Scan.Ranges))
	}
	if p.Scan.Limit > 0 {
		sc += fmt.Sprintf("+limit%d", p.Scan.Limit)
	}
	if p.Fill > 0 {
		sc += fmt.Sprintf("+fill%d", p.Fill)
	}
	if len(p.Pre) > 0 {
		sc += fmt.Sprintf("+pre%d", len(p.Pre))
	}
	return fmt.Sprintf("%s:scan[%s;big=%s]|%s", p.Engine, sc, strings.Join(p.Big, ""), strings.Join(ws, "|"))
}

func keysOf(o bt.Op) string {
	if o.Kind == "MutateRows" {
		s := ""
		for _, e := range o.Entries {
			s += string(e.Key)
		}
		if len(s) > 12 {
			s = fmt.Sprintf("%s..%s/%d", o.Entries[0].Key, o.Entries[len(o.Entries)-1].Key, len(o.Entries))
		}
		return s
	}
	if o.Kind == "DropRowRange" {
		return "prefix:" + string(o.Prefix)
	}
	return string(o.Key)
}

var c18Seq int

func c18Build(c *fw.Ctx, p c18Param) *schedInst {
	dir := ""
	if p.Engine == "disk" {
		c18Seq++
		dir = filepath.Join(c.Scratch, fmt.Sprintf("c18-%d", c18Seq))
		_ = os.MkdirAll(dir, 0o777)
	}
	var raw bttest.Rows
	d := bt.NewDriverOn(p.Engine, dir, bt.PointStorage{Storage: bt.NewStorage(p.Engine, dir), OnCreate: func(_ string, r bttest.Rows) { raw = r }})
	big := map[string]bool{}
	for _, b := range p.Big {
		big[b] = true
	}
	fx := c18Fixture(fmt.Sprintf("%s/%d", strings.Join(p.Big, ","), p.Fill), big, p.Fill)
	universe := c18Keys(p)
	model := fx.model.Clone()
	for _, o := range setupT() {
		if r := d.Apply(&o); r.Code != "OK" {
			panic("c18 setup failed: " + r.Code + " " + r.Msg + r.Panic)
		}
	}
	// The fixture rows are stored directly (the same row protos the API path produces: the fixture
	// is built once per process THROUGH the API on a scratch instance and read back raw).
	for _, r := range fx.rows {
		raw.ReplaceOrInsert(proto.Clone(r).(*btpb.Row))
	}
	for i := range p.Pre {
		model.Apply(&p.Pre[i], nil, 0)
		if r := d.Apply(&p.Pre[i]); r.Code != "OK" {
			panic("c18 pre-request failed: " + p.Pre[i].String() + ": " + r.Code + " " + r.Msg + r.Panic)
		}
	}
	type ev struct {
		op        bt.Op
		call, ret int64
		resp      bt.Resp
	}
	var clock int64
	var writes []ev
	var scan ev
	threads := []func(){func() {
		clock++
		scan.call = clock
		scan.op = p.Scan
		scan.resp = d.Apply(&scan.op)
		clock++
		scan.ret = clock
	}}
	for _, w := range p.Writers {
		w := w
		threads = append(threads, func() {
			for _, o := range w {
				clock++
				e := ev{op: o, call: clock}
				e.resp = d.Apply(&e.op)
				clock++
				e.ret = clock
				writes = append(writes, e)
			}
		})
	}
	inst := &schedInst{Threads: threads}
	inst.Verdict = func(x *sched.Exec) (string, string, string) {
		defer func() {
			d.Close()
			if dir != "" {
				_ = os.RemoveAll(dir)
			}
		}()
		r := scan.resp
		if r.Panic != "" {
			return "panic", "scan panicked (server fault): " + r.Panic, "panic"
		}
		for _, w := range writes {
			if w.resp.Panic != "" {
				return "panic", "writer panicked: " + w.op.String() + ": " + w.resp.Panic, "panic"
			}
		}
		if r.Code != "OK" {
			return "status", fmt.Sprintf("scan ended with %s (%s), want OK", r.Code, r.Msg), "status"
		}
		if r.Malformed != "" {
			return "malformed", "chunk stream not well formed: " + r.Malformed, "malformed"
		}
		// strictly ascending, no duplicates
		for i := 1; i < len(r.Rows); i++ {
			if r.Rows[i-1].Key >= r.Rows[i].Key {
				return "order", fmt.Sprintf("scan returned %q after %q (not strictly ascending / duplicate)", r.Rows[i].Key, r.Rows[i-1].Key), "order"
			}
		}
		// admissible versions per row
		// Every order of ALL writes that respects real time (a write that returned before another was called comes
		// first) is a possible history; along each, a state is a candidate for what the scan saw of a row if it
		// contains every write that returned before the scan was called and no write that was called after the scan
		// returned. (Two writes that overlap each other may take effect in either order, also when both returned
		// before the scan began.) The state after a complete order is a candidate for the final table.
		var cands, finals []*bt.Model
		var optional []ev
		for _, w := range writes {
			if !(w.ret < scan.call) && w.call < scan.ret {
				optional = append(optional, w)
			}
		}
		before := model.Clone() // one representative "before" state (completion order), used for rows nobody wrote during the scan
		for _, w := range writes {
			if w.ret < scan.call {
				before.Apply(&w.op, nil, 0)
			}
		}
		var rec func(m *bt.Model, done []bool, ndone int)
		rec = func(m *bt.Model, done []bool, ndone int) {
			okCand := true
			for i, w := range writes {
				if !done[i] && w.ret < scan.call {
					okCand = false // a write that preceded the scan is still missing
				}
				if done[i] && w.call > scan.ret {
					okCand = false // contains a write that began after the scan had ended
				}
			}
			if okCand {
				cands = append(cands, m)
			}
			if ndone == len(writes) {
				finals = append(finals, m)
				return
			}
			for i, w := range writes {
				if done[i] {
					continue
				}
				okOrder := true
				for j, o := range writes {
					if j != i && !done[j] && o.ret < w.call { // o really happened before w
						okOrder = false
					}
				}
				if !okOrder {
					continue
				}
				n := m.Clone()
				n.Apply(&w.op, nil, 0)
				nd := append([]bool(nil), done...)
				nd[i] = true
				rec(n, nd, ndone+1)
			}
		}
		rec(model.Clone(), make([]bool, len(writes)), 0)
		rowStr := func(m *bt.Model, key string) string {
			t := m.Tables[tblT]
			if t == nil || len(t.Rows[key]) == 0 {
				return ""
			}
			return bt.RowsString([]bt.RowOut{bt.ToRowOut(key, bt.Cells(t.Rows[key], nil))})
		}
		touched := map[string]bool{}
		for _, w := range optional {
			switch w.op.Kind {
			case "MutateRows":
				for _, e := range w.op.Entries {
					touched[string(e.Key)] = true
				}
			case "DropRowRange":
				for _, k := range universe {
					if strings.HasPrefix(k, string(w.op.Prefix)) {
						touched[k] = true
					}
				}
			default:
				touched[string(w.op.Key)] = true
			}
		}
		inScan := func(k string) bool {
			o := p.Scan
			if !o.HasRowSet {
				return true
			}
			for _, rg := range o.Ranges {
				if (rg.SK == 0 || (rg.SK == 1 && k >= string(rg.S)) || (rg.SK == 2 && k > string(rg.S))) &&
					(rg.EK == 0 || (rg.EK == 1 && k <= string(rg.E)) || (rg.EK == 2 && k < string(rg.E))) {
					return true
				}
			}
			return false
		}
		got := map[string]string{}
		for _, row := range r.Rows {
			got[row.Key] = bt.RowsString([]bt.RowOut{row})
		}
		limited := p.Scan.Limit > 0 && int64(len(r.Rows)) >= p.Scan.Limit
		for _, k := range universe {
			if !inScan(k) {
				if got[k] != "" {
					return "rowset", fmt.Sprintf("scan returned row %q outside the requested ranges", k), "rowset"
				}
				continue
			}
			g := got[k]
			if limited && g == "" {
				continue // cut off by rows_limit
			}
			if !touched[k] {
				if want := rowStr(before, k); g != want {
					return "untouched", fmt.Sprintf("row %q was not written during the scan but was returned as %q, stored %q", k, trunc([]byte(g)), trunc([]byte(want))), "untouched"
				}
				continue
			}
			ok := false
			for _, m := range cands {
				if rowStr(m, k) == g {
					ok = true
					break
				}
			}
			if !ok {
				return "version", fmt.Sprintf("row %q returned as %.200q, which is none of the states the row had during the scan (%d admissible)", k, g, len(cands)), "version"
			}
		}
		for k := range got {
			found := false
			for _, kk := range universe {
				found = found || kk == k
			}
			if !found {
				return "rowset", fmt.Sprintf("scan returned unknown row %q", k), "rowset"
			}
		}
		// afterwards: every acknowledged write is still there (the scan itself must not have changed anything)
		fin := d.Apply(&bt.Op{Kind: "ReadRows", Table: tblT})
		if fin.Panic != "" || fin.Code != "OK" {
			return "after", "a full read after the scan fails: " + fin.Code + " " + fin.Panic, "after"
		}
		lateFinals := finals
		gotAll := bt.RowsString(fin.Rows)
		okFinal := false
		for _, m := range lateFinals {
			var rows []bt.RowOut
			t := m.Tables[tblT]
			for _, k := range universe {
				if t != nil && len(t.Rows[k]) > 0 {
					rows = append(rows, bt.ToRowOut(k, bt.Cells(t.Rows[k], nil)))
				}
			}
			if bt.RowsString(rows) == gotAll {
				okFinal = true
				break
			}
		}
		if !okFinal {
			return "final", fmt.Sprintf("after the scan and all writes have returned, the table is in none of the %d states the acknowledged writes can produce: %.300s", len(lateFinals), gotAll), "final"
		}
		var ks []string
		for _, row := range r.Rows {
			ks = append(ks, row.Key)
		}
		if len(ks) > 12 {
			return "", "", fmt.Sprintf("rows=%d msgs=%d", len(ks), r.Messages)
		}
		return "", "", fmt.Sprintf("rows=%v msgs=%d", ks, r.Messages)
	}
	return inst
}

type c18Fx struct {
	model *bt.Model
	rows  []*btpb.Row
}

var c18Fixtures = map[string]*c18Fx{}

// c18Fixture builds the initial table once per process through the real API (btree scratch
// instance), reads the stored rows back raw, and builds the matching model state.
func c18Fixture(key string, big map[string]bool, fill int) *c18Fx {
	if f := c18Fixtures[key]; f != nil {
		return f
	}
	d := bt.NewDriver("btree", "")
	defer d.Close()
	m := bt.NewModel()
	setup := setupT()
	for _, k := range []string{"a", "b", "c", "d", "e"} {
		n := 2
		if big[k] {
			n = 1025
		}
		var muts []bt.Mut
		for i := 0; i < n; i++ {
			muts = append(muts, mset("f", fmt.Sprintf("q%04d", i), 1000, "v0-"+k))
		}
		setup = append(setup, bt.Op{Kind: "MutateRow", Table: tblT, Key: []byte(k), Muts: muts})
	}
	for i := 0; i < fill; i++ {
		setup = append(setup, bt.Op{Kind: "MutateRow", Table: tblT, Key: []byte(fmt.Sprintf("f%03d", i)), Muts: []bt.Mut{mset("f", "q0000", 1000, "fill")}})
	}
	for i := range setup {
		m.Apply(&setup[i], nil, 0)
		if r := d.Apply(&setup[i]); r.Code != "OK" {
			panic("c18 fixture failed: " + r.Code + " " + r.Msg + r.Panic)
		}
	}
	f := &c18Fx{model: m}
	for _, t := range d.S.VerifDump() {
		if t.Name == tblT {
			for _, r := range t.Rows {
				f.rows = append(f.rows, proto.Clone(r).(*btpb.Row))
			}
		}
	}
	c18Fixtures[key] = f
	return f
}

func c18Scenario(c *fw.Ctx, p c18Param) *schedScenario {
	raw, _ := json.Marshal(p)
	return &schedScenario{Name: p.name(), Param: raw, Build: func() *schedInst { return c18Build(c, p) }}
}

func init() {
	fw.Register(&fw.Check{
		ID:    "C18",
		Level: "model_checking",
		Rule: "stateless model checking under a controlled scheduler: every interleaving within the preemption bound of one multi-message ReadRows scan (rows of >1024 cells force a Send, at which the scan gives up the table lock) with 1-2 writer threads issuing SetCell / delete row / insert of a new row before, between and after / read-modify-write / multi-row write on rows before, at and after the scan position; scheduling points: registry mutex, table RWMutex, every Rows call, stream Send; " +
			"oracle: OK status, well-formed stream, strictly ascending keys, every returned row equals one state that row had during the scan (all orders of the overlapping writes), untouched rows exact",
		Assumptions: []string{"leveldb engines only (the btree engine documents that it does not offer this)", "a row's admissible states are computed by the reference model from the recorded write history"},
		Run:         runC18,
		Replay:      replayC18,
		Budget:      schedBudget(75*time.Second, 20*time.Minute),
	})
}

func replayC18(c *fw.Ctx, raw json.RawMessage) (string, string) {
	var cs schedCase
	if err := json.Unmarshal(raw, &cs); err != nil {
		return "bad-replay", err.Error()
	}
	var p c18Param
	if err := json.Unmarshal(cs.Param, &p); err != nil {
		return "bad-replay", err.Error()
	}
	_, class, detail, _ := runSchedOnce(c18Scenario(c, p), cs.Choices)
	if class == "" {
		return "", ""
	}
	return fmt.Sprintf("C18:%s:%s", cs.Scenario, class), detail
}

func runC18(c *fw.Ctx) {
	set := func(k, v string) bt.Op {
		return bt.Op{Kind: "MutateRow", Table: tblT, Key: []byte(k), Muts: []bt.Mut{mset("f", "q0000", 1000, v), mset("g", "new", 2000, v)}}
	}
	del := func(k string) bt.Op {
		return bt.Op{Kind: "MutateRow", Table: tblT, Key: []byte(k), Muts: []bt.Mut{{Kind: "delrow"}}}
	}
	rmw := func(k string) bt.Op {
		return bt.Op{Kind: "RMW", Table: tblT, Key: []byte(k), Rules: []bt.Rule{{Fam: "f", Qual: []byte("q0001"), Append: []byte("+")}}}
	}
	mrs := bt.Op{Kind: "MutateRows", Table: tblT, Entries: []bt.Entry{{Key: []byte("a"), Muts: []bt.Mut{mset("g", "mr", 1000, "x")}}, {Key: []byte("e"), Muts: []bt.Mut{mset("g", "mr", 1000, "x")}}}}
	// rejected after its first rule has been applied in memory: the second rule increments a 4-byte value
	rmwBad := func(k string) bt.Op {
		return bt.Op{Kind: "RMW", Table: tblT, Key: []byte(k), Rules: []bt.Rule{{Fam: "g", Qual: []byte("tag"), Append: []byte("seen")}, {Fam: "f", Qual: []byte("q0000"), IsInc: true, Inc: 1}}}
	}
	delRun := func(from, to int) bt.Op {
		o := bt.Op{Kind: "MutateRows", Table: tblT}
		for i := from; i <= to; i++ {
			o.Entries = append(o.Entries, bt.Entry{Key: []byte(fmt.Sprintf("f%03d", i)), Muts: []bt.Mut{{Kind: "delrow"}}})
		}
		return o
	}
	single := []bt.Op{set("a", "w"), set("c", "w"), set("e", "w"), del("a"), del("c"), del("e"), set("bb", "ins"), set("0", "ins"), set("z", "ins"), rmw("b"), rmw("d"), mrs, rmwBad("d"), rmwBad("e")}
	all := bt.Op{Kind: "ReadRows", Table: tblT}
	two := bt.Op{Kind: "ReadRows", Table: tblT, HasRowSet: true, Ranges: []bt.Range{{EK: 2, E: []byte("b")}, {SK: 1, S: []byte("c")}}}
	lim := bt.Op{Kind: "ReadRows", Table: tblT, Limit: 3}
	var scen []c18Param
	engines := []string{"mem"}
	if c.Thorough() {
		engines = []string{"mem", "disk"}
	}
	for _, eng := range engines {
		for _, w := range single {
			scen = append(scen, c18Param{Engine: eng, Scan: all, Writers: [][]bt.Op{{w}}, Big: []string{"a", "c"}})
		}
		for _, w := range []bt.Op{set("a", "w"), del("c"), set("bb", "ins"), del("e")} {
			scen = append(scen, c18Param{Engine: eng, Scan: two, Writers: [][]bt.Op{{w}}, Big: []string{"a", "c"}})
			scen = append(scen, c18Param{Engine: eng, Scan: lim, Writers: [][]bt.Op{{w}}, Big: []string{"a", "b"}})
		}
		// scans far longer than any batching constant in the engines (the GC pass and iterators work in
		// batches of ~100 rows): runs of rows around the 100th and 200th position are deleted / rewritten
		// while the scan has given up the lock after its first row
		scen = append(scen,
			c18Param{Engine: eng, Scan: all, Writers: [][]bt.Op{{delRun(90, 110)}}, Big: []string{"a"}, Fill: 230},
			c18Param{Engine: eng, Scan: all, Writers: [][]bt.Op{{delRun(190, 205)}, {set("f099", "w")}}, Big: []string{"a"}, Fill: 230},
			c18Param{Engine: eng, Scan: bt.Op{Kind: "ReadRows", Table: tblT, HasRowSet: true, Ranges: []bt.Range{{SK: 1, S: []byte("a"), EK: 2, E: []byte("f150")}, {SK: 1, S: []byte("f160")}}}, Writers: [][]bt.Op{{delRun(95, 105)}, {bt.Op{Kind: "DropRowRange", Table: tblT, Prefix: []byte("f2")}}}, Big: []string{"a"}, Fill: 230},
		)
		// rows that are stored without any cell (their only family was dropped; the family exists again): a write to
		// such a row while the scan has given up the lock
		ghost := []bt.Op{
			{Kind: "MutateRow", Table: tblT, Key: []byte("bb"), Muts: []bt.Mut{mset("g", "only", 1000, "x")}},
			{Kind: "MutateRow", Table: tblT, Key: []byte("cc"), Muts: []bt.Mut{mset("g", "only", 1000, "x")}},
			{Kind: "ModifyFamilies", Table: tblT, Mods: []bt.Mod{{ID: "g", Op: "drop"}}},
			{Kind: "ModifyFamilies", Table: tblT, Mods: []bt.Mod{{ID: "g", Op: "create"}}},
		}
		scen = append(scen,
			c18Param{Engine: eng, Scan: all, Pre: ghost, Writers: [][]bt.Op{{set("bb", "w")}}, Big: []string{"a", "c"}},
			c18Param{Engine: eng, Scan: all, Pre: ghost, Writers: [][]bt.Op{{set("cc", "w")}, {rmw("bb")}}, Big: []string{"a", "c"}},
		)
		// two writers, and a writer with two requests on the same row
		scen = append(scen,
			c18Param{Engine: eng, Scan: all, Writers: [][]bt.Op{{set("c", "w1")}, {del("c")}}, Big: []string{"a", "c"}},
			c18Param{Engine: eng, Scan: all, Writers: [][]bt.Op{{del("b"), set("b", "again")}}, Big: []string{"a", "c"}},
			c18Param{Engine: eng, Scan: all, Writers: [][]bt.Op{{set("bb", "ins")}, {del("a")}}, Big: []string{"a", "c"}},
			c18Param{Engine: eng, Scan: all, Writers: [][]bt.Op{{set("c", "w1"), set("c", "w2")}, {rmw("d")}}, Big: []string{"a"}},
			c18Param{Engine: eng, Scan: all, Writers: [][]bt.Op{{set("e", "w")}, {set("0", "ins")}}, Big: []string{"a", "c", "d"}},
		)
	}
	for i, p := range scen {
		if !c.Mine(int64(i)) {
			continue
		}
		if c.Expired() {
			c.Incomplete("time budget reached before all scenarios were explored")
			break
		}
		sc := c18Scenario(c, p)
		if !selfCheckDeterminism(c, "C18", sc) {
			return
		}
		bound := 2
		if len(p.Writers) >= 2 && !c.Thorough() {
			bound = 1 // scan + two writer threads: one preemption (thorough: 3)
		}
		if p.Fill > 0 {
			bound = 1 // a writer running entirely inside one lock gap of the scan, at every gap; thorough: 2
		}
		if c.Thorough() {
			bound = 3
			if p.Fill > 0 {
				bound = 2
			}
			if len(p.Writers) == 1 && len(p.Writers[0]) == 1 && p.Engine != "disk" {
				bound = -1 // scan + one write request: every interleaving
			}
		}
		n := exploreScenario(c, "C18", sc, bound, 0)
		c.Note("execs:"+sc.Name, n)
	}
	c.Bound("scenarios", len(scen))
}
