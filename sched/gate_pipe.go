//go:build race

package sched

import "syscall"

// gate (race builds): the hand-off goes through a pipe with raw syscalls inside //go:norace
// functions, so that the race detector sees NO happens-before edge introduced by the scheduler.
// Two accesses that are ordered only by the scheduler's serialisation are therefore reported as
// a race in every explored schedule, while accesses ordered by the program's own locks are not.
type gate struct{ r, w int }

const RaceMode = true

//go:norace
func newGate() gate {
	var p [2]int
	if err := syscall.Pipe(p[:]); err != nil {
		panic(err)
	}
	return gate{r: p[0], w: p[1]}
}

var gateByte = [1]byte{1}

//go:norace
func (g *gate) wake() {
	for {
		_, _, e := syscall.Syscall(syscall.SYS_WRITE, uintptr(g.w), uintptr(ptr(&gateByte[0])), 1)
		if e == syscall.EINTR {
			continue
		}
		if e != 0 {
			panic(e)
		}
		return
	}
}

//go:norace
func (g *gate) wait() {
	var b [1]byte
	for {
		n, _, e := syscall.Syscall(syscall.SYS_READ, uintptr(g.r), uintptr(ptr(&b[0])), 1)
		if e == syscall.EINTR {
			continue
		}
		if e != 0 {
			panic(e)
		}
		if n == 1 {
			return
		}
	}
}

//go:norace
func (g *gate) close() {
	syscall.Close(g.r)
	syscall.Close(g.w)
}
