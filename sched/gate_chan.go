//go:build !race

package sched

// gate: hand-off primitive between the explorer and controlled threads (normal builds).
type gate struct{ ch chan struct{} }

func newGate() gate    { return gate{ch: make(chan struct{}, 1)} }
func (g *gate) wake()  { g.ch <- struct{}{} }
func (g *gate) wait()  { <-g.ch }
func (g *gate) close() {}

const RaceMode = false
