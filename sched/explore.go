package sched

import "time"

// Explorer enumerates schedules depth-first with iterative preemption bounding.
type Explorer struct {
	Bound    int       // maximum number of preemptions (<0: unbounded)
	MaxExecs int64     // safety cap (0 = none)
	Deadline time.Time // zero = none
	Execs    int64     // executions run
	Capped   bool      // a cap or the deadline stopped the enumeration
	Stop     bool      // set by the check callback to stop early
	MaxRecs  int       // longest decision sequence seen
}

// Explore runs run(prefix) for every schedule within the bound; run must execute the program
// under sched.Run with the given prefix and return the Exec; check inspects it.
func (e *Explorer) Explore(run func(prefix []int) *Exec, check func(x *Exec)) {
	e.explore(nil, run, check)
}

func (e *Explorer) explore(prefix []int, run func([]int) *Exec, check func(*Exec)) {
	if e.Stop || e.Capped {
		return
	}
	if e.MaxExecs > 0 && e.Execs >= e.MaxExecs {
		e.Capped = true
		return
	}
	if !e.Deadline.IsZero() && e.Execs%64 == 0 && time.Now().After(e.Deadline) {
		e.Capped = true
		return
	}
	x := run(prefix)
	e.Execs++
	check(x)
	recs := x.Recs()
	if len(recs) > e.MaxRecs {
		e.MaxRecs = len(recs)
	}
	if x.Diverged != "" {
		return
	}
	choices := x.Choices()
	// preemptions used before decision i
	cost := 0
	for i := 0; i < len(recs); i++ {
		r := recs[i]
		if i >= len(prefix) {
			for alt := 1; alt < int(r.Alts); alt++ {
				c := cost
				if !r.Env && r.RunEnabled {
					c++
				}
				if e.Bound >= 0 && c > e.Bound {
					continue
				}
				np := make([]int, i+1)
				copy(np, choices[:i])
				np[i] = alt
				e.explore(np, run, check)
				if e.Stop || e.Capped {
					return
				}
			}
		}
		if !r.Env && r.RunEnabled && r.Chosen != 0 {
			cost++
		}
	}
}
