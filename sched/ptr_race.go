//go:build race

package sched

import "unsafe"

//go:norace
func ptr(b *byte) unsafe.Pointer { return unsafe.Pointer(b) }
