// Package sched is a cooperative scheduler for controlled concurrency testing of real Go code.
// Threads are goroutines; exactly one runs at a time; at every Point the running thread parks
// and the explorer picks the next one among the enabled threads.  All shared scheduler state
// lives in fixed-size arrays and every function is //go:norace so that the same code can run
// under the race detector without producing reports about the scheduler itself (see gate_pipe.go).
package sched

import (
	"fmt"
	"reflect"
	"runtime/debug"
	"sync"
)

const (
	MaxThreads = 8
	MaxRecs    = 4096
)

type Kind uint8

const (
	KStart Kind = iota
	KPlain
	KLock
	KRLock
	KSelect
)

// MState is the scheduler's model of one mutex (embedded in the vsync shims).
type MState struct {
	W int32 // thread id+1 of the writer, 0 if none
	R int32 // number of readers
}

type SelCase struct {
	Send bool
	Ch   reflect.Value
}

type Thread struct {
	ID   int
	x    *Exec
	g    gate
	kind Kind
	m    *MState
	cs   []SelCase
	def  bool
	Tag  string // last point label (for traces)
	done bool
	// daemon: started by a `go` statement of the program under test (not by the harness). The
	// execution ends when every harness thread is done and no daemon can make a step; a daemon
	// blocked forever (a worker loop) is not a deadlock.
	daemon bool
}

// Rec is one recorded decision (only decisions with more than one alternative are recorded).
type Rec struct {
	Alts       uint8
	Chosen     uint8
	Env        bool // environment choice (costs nothing)
	RunEnabled bool // the running thread could have continued: deviating is a preemption
	Tid        int8 // thread that was picked (scheduling decisions)
}

type Exec struct {
	threads [MaxThreads]*Thread
	n       int
	cur     *Thread
	prefix  []int
	recs    [MaxRecs]Rec
	nrec    int

	Steps    int
	MaxSteps int
	Deadlock bool
	Horizon  bool
	Diverged string
	Panics   [MaxThreads]string
	NPanic   int
	Blocked  [MaxThreads]string // for deadlock reports: what each thread was waiting on

	OnPoint func(t *Thread) // optional: called (on the running thread) at every point, before the decision

	mainG gate
	// join: a REAL happens-before edge from the end of every thread to the harness's read-back of
	// results (the gates deliberately create none in race builds).
	join sync.WaitGroup
}

var active *Exec

//go:norace
func Active() *Exec { return active }

// Cur returns the running controlled thread, or nil when no controlled execution is active
// (set-up / tear-down code running on the harness goroutine).
//
//go:norace
func Cur() *Thread {
	if x := active; x != nil {
		return x.cur
	}
	return nil
}

//go:norace
func (x *Exec) Recs() []Rec { return x.recs[:x.nrec] }

//go:norace
func (x *Exec) Choices() []int {
	out := make([]int, x.nrec)
	for i := 0; i < x.nrec; i++ {
		out[i] = int(x.recs[i].Chosen)
	}
	return out
}

// Run executes the thread bodies under the schedule given by prefix (then choice 0 everywhere).
//
//go:norace
func Run(prefix []int, maxSteps int, onPoint func(*Thread), fns ...func()) *Exec {
	if len(fns) > MaxThreads {
		panic("too many threads")
	}
	x := &Exec{prefix: prefix, n: len(fns), MaxSteps: maxSteps, OnPoint: onPoint}
	x.mainG = newGate()
	for i := range fns {
		t := &Thread{ID: i, x: x, g: newGate(), kind: KStart, Tag: "start"}
		x.threads[i] = t
	}
	active = x
	x.join.Add(len(fns))
	for i := range fns {
		go x.threads[i].body(fns[i])
	}
	x.schedule(nil)
	x.mainG.wait()
	active = nil
	x.cur = nil
	if !x.Deadlock && !x.Horizon && x.Diverged == "" {
		x.join.Wait()
		for i := 0; i < x.n; i++ {
			if x.threads[i].done {
				x.threads[i].g.close()
			}
		}
		x.mainG.close()
	}
	return x
}

// Spawn starts fn as a new controlled thread of the running execution (what a rewritten `go`
// statement calls). The new thread is enabled at once; the spawning thread keeps running.
//
//go:norace
func (t *Thread) Spawn(fn func()) {
	x := t.x
	if x.n >= MaxThreads {
		panic("verif/sched: more than MaxThreads goroutines in one controlled execution")
	}
	nt := &Thread{ID: x.n, x: x, g: newGate(), kind: KStart, Tag: "start", daemon: true}
	x.threads[x.n] = nt
	x.n++
	go nt.body(fn)
}

//go:norace
func (t *Thread) body(fn func()) {
	t.g.wait()
	defer func() {
		if r := recover(); r != nil {
			if r == errAbort {
				return
			}
			x := t.x
			if x.NPanic < MaxThreads {
				x.Panics[x.NPanic] = fmt.Sprintf("thread %d: panic: %v\n%s", t.ID, r, debug.Stack())
				x.NPanic++
			}
		}
		t.done = true
		if !t.daemon {
			t.x.join.Done()
		}
		t.x.schedule(t)
	}()
	fn()
}

var errAbort = fmt.Errorf("verif: execution aborted")

//go:norace
func (t *Thread) enabled() bool {
	if t.done {
		return false
	}
	switch t.kind {
	case KLock:
		return t.m.W == 0 && t.m.R == 0
	case KRLock:
		if t.m.W != 0 {
			return false
		}
		// sync.RWMutex prefers writers: once a goroutine is inside Lock (here: waiting in the announced state, see WLock), no new reader
		// is admitted until that writer has had its turn - which is what makes a second RLock by a goroutine that
		// already holds one a deadlock as soon as a writer arrives in between. (The order "reader first, then the
		// writer calls Lock" is the schedule in which the writer is still parked at its previous point.)
		for i := 0; i < t.x.n; i++ {
			if o := t.x.threads[i]; o != t && !o.done && o.kind == KLock && o.m == t.m {
				return false
			}
		}
		return true
	case KSelect:
		if t.def {
			return true
		}
		for i := range t.cs {
			if caseReady(t.cs[i]) {
				return true
			}
		}
		return false
	}
	return true
}

//go:norace
func caseReady(c SelCase) bool {
	if !c.Ch.IsValid() || c.Ch.IsNil() {
		return false
	}
	if c.Send {
		return c.Ch.Len() < c.Ch.Cap()
	}
	if c.Ch.Len() > 0 {
		return true
	}
	v, _ := c.Ch.TryRecv() // empty: non-consuming; valid zero value <=> closed
	return v.IsValid()
}

// decide records a decision with n alternatives and returns the chosen index.
//
//go:norace
func (x *Exec) decide(n int, env, runEnabled bool) int {
	if n <= 1 {
		return 0
	}
	i := x.nrec
	if i >= MaxRecs {
		x.Horizon = true
		return 0
	}
	c := 0
	if i < len(x.prefix) {
		c = x.prefix[i]
		if c < 0 || c >= n {
			x.Diverged = fmt.Sprintf("replay divergence at decision %d: choice %d of %d alternatives", i, c, n)
			c = 0
		}
	}
	x.recs[i] = Rec{Alts: uint8(n), Chosen: uint8(c), Env: env, RunEnabled: runEnabled, Tid: -1}
	x.nrec++
	return c
}

// schedule is called by the running thread t at a point (or when it finished), or with nil by
// the harness to start. It picks the next thread, hands over and (if t is still alive and was
// not picked) parks t until it is picked again.
//
//go:norace
func (x *Exec) schedule(t *Thread) {
	x.Steps++
	if x.MaxSteps > 0 && x.Steps > x.MaxSteps {
		x.Horizon = true
	}
	if x.Horizon || x.Diverged != "" {
		x.abort(t)
		return
	}
	var alts [MaxThreads]*Thread
	n := 0
	runEnabled := false
	if t != nil && t.enabled() {
		alts[0] = t
		n = 1
		runEnabled = true
	}
	unfinished := 0
	for i := 0; i < x.n; i++ {
		o := x.threads[i]
		if !o.done && !o.daemon {
			unfinished++
		}
		if o == t {
			continue
		}
		if o.enabled() {
			alts[n] = o
			n++
		}
	}
	if n == 0 {
		if unfinished > 0 {
			x.Deadlock = true
			for i := 0; i < x.n; i++ {
				o := x.threads[i]
				if !o.done {
					x.Blocked[i] = o.Tag
				}
			}
		}
		x.cur = nil
		x.mainG.wake()
		if t != nil && !t.done {
			t.g.wait() // never woken: the goroutine is abandoned
		}
		return
	}
	c := x.decide(n, false, runEnabled)
	if x.Diverged != "" || x.Horizon {
		x.abort(t)
		return
	}
	next := alts[c]
	if n > 1 {
		x.recs[x.nrec-1].Tid = int8(next.ID)
	}
	if next == t {
		return
	}
	x.cur = next
	next.g.wake()
	if t != nil && !t.done {
		t.g.wait()
	}
}

//go:norace
func (x *Exec) abort(t *Thread) {
	x.cur = nil
	x.mainG.wake()
	if t != nil && !t.done {
		t.g.wait() // abandoned
	}
}

// Point is a plain scheduling point (always enabled).
//
//go:norace
func (t *Thread) Point(tag string) {
	t.kind, t.Tag = KPlain, tag
	if f := t.x.OnPoint; f != nil {
		f(t)
	}
	t.x.schedule(t)
}

//go:norace
func (t *Thread) Lock(m *MState, tag string) {
	t.kind, t.m, t.Tag = KLock, m, tag
	if f := t.x.OnPoint; f != nil {
		f(t)
	}
	t.x.schedule(t)
	t.kind, t.m = KPlain, nil
	m.W = int32(t.ID) + 1
}

// WLock is the write lock of a sync.RWMutex. A writer ANNOUNCES itself when it is inside Lock (new readers are then refused,
// see enabled); being about to call Lock announces nothing. So the call is two steps: a plain point before the call, and -
// only if the mutex cannot be taken at once - a wait in the announced state. (Treating the thread parked before the call as
// announced, as an earlier version did, hid every schedule in which a reader slips in between another thread's RUnlock and
// its Lock: the window of a read-lock-then-upgrade pattern, seed C19-8.)
//
//go:norace
func (t *Thread) WLock(m *MState, tag string) {
	t.Point(tag + ".enter")
	if m.W == 0 && m.R == 0 {
		m.W = int32(t.ID) + 1
		return
	}
	t.Lock(m, tag)
}

//go:norace
func (t *Thread) Unlock(m *MState) {
	m.W = 0
}

//go:norace
func (t *Thread) RLock(m *MState, tag string) {
	t.kind, t.m, t.Tag = KRLock, m, tag
	if f := t.x.OnPoint; f != nil {
		f(t)
	}
	t.x.schedule(t)
	t.kind, t.m = KPlain, nil
	m.R++
}

//go:norace
func (t *Thread) RUnlock(m *MState) {
	m.R--
}

// Select parks until one of the cases is ready (or immediately if there is a default) and lets
// the explorer choose among the ready cases. Returns the case index, or -1 for default.
//
//go:norace
func (t *Thread) Select(hasDefault bool, cs []SelCase, tag string) int {
	t.kind, t.cs, t.def, t.Tag = KSelect, cs, hasDefault, tag
	if f := t.x.OnPoint; f != nil {
		f(t)
	}
	t.x.schedule(t)
	t.kind, t.cs = KPlain, nil
	var ready [16]int
	n := 0
	for i := range cs {
		if n < len(ready) && caseReady(cs[i]) {
			ready[n] = i
			n++
		}
	}
	if n == 0 {
		if hasDefault {
			return -1
		}
		panic("verif/sched: select resumed with no ready case")
	}
	return ready[t.x.decide(n, true, false)]
}

// Choose is an environment choice among n alternatives (costs no preemption).
//
//go:norace
func (t *Thread) Choose(n int) int {
	return t.x.decide(n, true, false)
}

//go:norace
func (t *Thread) Exec() *Exec { return t.x }

// ThreadBlocked reports whether thread i is parked at an operation that cannot proceed now.
//
//go:norace
func (x *Exec) ThreadBlocked(i int) bool {
	if i < 0 || i >= x.n {
		return false
	}
	t := x.threads[i]
	return !t.done && !t.enabled()
}

// ThreadWaitsOnChannel reports whether thread i is parked at a channel operation (select or a
// statement-level send/receive) none of whose cases can proceed now. Waiting for a mutex is not
// included: its holder is inside a critical section and either leaves it or the execution ends
// in a detected deadlock.
//
//go:norace
func (x *Exec) ThreadWaitsOnChannel(i int) bool {
	if i < 0 || i >= x.n {
		return false
	}
	t := x.threads[i]
	return !t.done && t.kind == KSelect && !t.enabled()
}

// InHook makes Cur() return nil while fn runs, so that instrumented code called from a hook
// (e.g. a read-only accessor that takes a lock) runs in pass-through mode.
//
//go:norace
func (x *Exec) InHook(fn func()) {
	saved := x.cur
	x.cur = nil
	defer func() { x.cur = saved }()
	fn()
}

//go:norace
func (t *Thread) Done() bool { return t.done }
