package bt

import (
	"context"
	"encoding/hex"
	"fmt"
	"runtime/debug"
	"sort"
	"strings"
	"sync"
	"time"

	"cloud.google.com/go/bigtable"
	btapb "cloud.google.com/go/bigtable/admin/apiv2/adminpb"
	btpb "cloud.google.com/go/bigtable/apiv2/bigtablepb"
	"github.com/fullstorydev/emulators/bigtable/bttest"
	"google.golang.org/grpc/codes"
	"google.golang.org/grpc/metadata"
	"google.golang.org/grpc/status"
	"google.golang.org/protobuf/proto"
	"google.golang.org/protobuf/types/known/durationpb"

	"verif/sched"
	"verif/shim/vchan"
	"verif/shim/vrand"
	"verif/shim/vtime"
)

// Driver drives the real service implementation in-process with wire fidelity: every request
// is marshalled and unmarshalled before the call (as gRPC would), every response is marshalled
// after it; streams are small fakes that record (and, under the scheduler, yield at) each Send.
type Driver struct {
	S        *bttest.VerifServer
	real     *bttest.Server // set when the service was started through the public constructor
	Engine   string
	Dir      string
	Clock    int64 // µs
	Poisoned bool
	coins    []bool
	ncoin    int
	Overrun  bool
	tmu      sync.Mutex
	tracked  []bttest.Rows
}

// trackStorage remembers every Rows the storage hands to the service. The service never closes the rows of a
// table that is deleted (each leveldb instance keeps 4 MiB and several goroutines alive), so a worker that runs
// 10^5 executions would grow without bound: Driver.Close releases them all. Nothing else changes.
type trackStorage struct {
	bttest.Storage
	d *Driver
}

func (t trackStorage) track(r bttest.Rows) bttest.Rows {
	t.d.tmu.Lock()
	t.d.tracked = append(t.d.tracked, r)
	t.d.tmu.Unlock()
	return r
}
func (t trackStorage) Create(tb *btapb.Table) bttest.Rows { return t.track(t.Storage.Create(tb)) }
func (t trackStorage) Open(tb *btapb.Table) bttest.Rows   { return t.track(t.Storage.Open(tb)) }

// DeleteTableMeta forwards the optional storage method the service looks for with a type assertion.
func (t trackStorage) DeleteTableMeta(tb *btapb.Table) {
	if d, ok := t.Storage.(interface{ DeleteTableMeta(tbl *btapb.Table) }); ok {
		d.DeleteTableMeta(tb)
	}
}

// releaseTracked closes the rows of every table this service ever had (a second Close of a leveldb instance
// fails with "closed", which is ignored).
func (d *Driver) releaseTracked() {
	d.tmu.Lock()
	rows := d.tracked
	d.tracked = nil
	d.tmu.Unlock()
	for _, r := range rows {
		func() {
			defer func() { _ = recover() }()
			r.Close()
		}()
	}
}

func NewStorage(engine, dir string) bttest.Storage {
	switch engine {
	case "btree":
		return bttest.BtreeStorage{}
	case "mem":
		return bttest.LeveldbMemStorage{}
	case "disk":
		return bttest.LeveldbDiskStorage{Root: dir, ErrLog: func(err error, msg string) {}}
	}
	panic("unknown engine " + engine)
}

func NewDriver(engine, dir string) *Driver {
	return NewDriverOn(engine, dir, NewStorage(engine, dir))
}

// NewDriverOn builds the service on the given (possibly wrapped) storage.
func NewDriverOn(engine, dir string, st bttest.Storage) *Driver {
	d := &Driver{Engine: engine, Dir: dir, Clock: 1_000_000}
	d.S = bttest.NewVerifServer(trackStorage{Storage: st, d: d}, func() bigtable.Timestamp {
		yield("clock")
		return bigtable.Timestamp(d.Clock)
	})
	return d
}

// NewDriverReal starts the emulator the way cbtemulator does - bttest.NewServerWithOptions on a
// loopback listener, which loads the persisted tables, registers the gRPC services and starts the
// background GC goroutine - and drives the service implementation behind it. Close is the public
// Server.Close. Only for uncontrolled (sequential / crash) executions: the GC goroutine runs free
// (its first pass is 15-60 s of real time away).
func NewDriverReal(engine, dir string) (*Driver, error) {
	// the free-running GC goroutine waits in a rewritten select, which polls: poll slowly
	vchan.SeqBlock = func() { time.Sleep(20 * time.Millisecond) }
	d := &Driver{Engine: engine, Dir: dir, Clock: 1_000_000}
	srv, err := bttest.NewServerWithOptions("127.0.0.1:0", bttest.Options{
		Storage: trackStorage{Storage: NewStorage(engine, dir), d: d},
		Clock:   func() bigtable.Timestamp { return bigtable.Timestamp(d.Clock) },
	})
	if err != nil {
		return nil, err
	}
	d.real, d.S = srv, srv.VerifInner()
	return d, nil
}

func (d *Driver) Close() {
	if d.Poisoned || d.S == nil {
		return
	}
	if d.real != nil {
		func() {
			defer func() { _ = recover() }()
			d.real.Close()
		}()
		d.real, d.S = nil, nil
		d.releaseTracked()
		return
	}
	func() {
		defer func() { _ = recover() }()
		d.S.VerifCloseAsServer() // the public Server.Close itself, on a Server without listener traffic
	}()
	d.S = nil
	d.releaseTracked()
}

//go:norace
func (d *Driver) nextCoin() bool {
	i := d.ncoin
	d.ncoin++
	if i < len(d.coins) {
		return d.coins[i]
	}
	d.Overrun = true
	return false
}

func (d *Driver) installSeams(coins []bool) {
	d.coins, d.ncoin, d.Overrun = coins, 0, false
	vrand.Float64Fn = func() float64 {
		if d.nextCoin() {
			return 0
		}
		return 0.9999999
	}
	vrand.Int31nFn = func(n int32) int32 {
		if d.nextCoin() {
			return 0
		}
		return 1 % n
	}
	vrand.IntnFn = func(n int) int { return 0 }
}

func roundTrip[T proto.Message](in T, out T) T {
	b, err := proto.Marshal(in)
	if err != nil {
		panic(err)
	}
	if err := proto.Unmarshal(b, out); err != nil {
		panic(err)
	}
	return out
}

func wireOut(m proto.Message) {
	if m == nil {
		return
	}
	if _, err := proto.Marshal(m); err != nil {
		panic(fmt.Sprintf("response does not marshal: %v", err))
	}
}

func codeOf(err error) (string, string) {
	if err == nil {
		return "OK", ""
	}
	st, _ := status.FromError(err)
	c := st.Code()
	if c == codes.OK {
		c = codes.Unknown
	}
	return c.String(), st.Message()
}

// ---- proto builders -----------------------------------------------------------------------------

func (g *GC) Proto() *btapb.GcRule {
	if g == nil {
		return nil
	}
	switch g.Kind {
	case "maxver":
		return &btapb.GcRule{Rule: &btapb.GcRule_MaxNumVersions{MaxNumVersions: g.N}}
	case "maxage":
		return &btapb.GcRule{Rule: &btapb.GcRule_MaxAge{MaxAge: &durationpb.Duration{Seconds: g.AgeSec, Nanos: g.AgeNanos}}}
	case "union":
		u := &btapb.GcRule_Union{}
		for _, s := range g.Subs {
			u.Rules = append(u.Rules, s.Proto())
		}
		return &btapb.GcRule{Rule: &btapb.GcRule_Union_{Union: u}}
	case "inter":
		u := &btapb.GcRule_Intersection{}
		for _, s := range g.Subs {
			u.Rules = append(u.Rules, s.Proto())
		}
		return &btapb.GcRule{Rule: &btapb.GcRule_Intersection_{Intersection: u}}
	}
	return &btapb.GcRule{}
}

func gcFromProto(r *btapb.GcRule) *GC {
	if r == nil || r.Rule == nil {
		return nil
	}
	switch x := r.Rule.(type) {
	case *btapb.GcRule_MaxNumVersions:
		return &GC{Kind: "maxver", N: x.MaxNumVersions}
	case *btapb.GcRule_MaxAge:
		return &GC{Kind: "maxage", AgeSec: x.MaxAge.GetSeconds(), AgeNanos: x.MaxAge.GetNanos()}
	case *btapb.GcRule_Union_:
		g := &GC{Kind: "union"}
		for _, s := range x.Union.GetRules() {
			g.Subs = append(g.Subs, gcFromProto(s))
		}
		return g
	case *btapb.GcRule_Intersection_:
		g := &GC{Kind: "inter"}
		for _, s := range x.Intersection.GetRules() {
			g.Subs = append(g.Subs, gcFromProto(s))
		}
		return g
	}
	return nil
}

func famsFromProto(t *btapb.Table) map[string]string {
	out := map[string]string{}
	for k, v := range t.GetColumnFamilies() {
		out[k] = gcFromProto(v.GetGcRule()).String()
	}
	return out
}

func MutsProto(ms []Mut) []*btpb.Mutation {
	var out []*btpb.Mutation
	for _, m := range ms {
		switch m.Kind {
		case "set":
			out = append(out, &btpb.Mutation{Mutation: &btpb.Mutation_SetCell_{SetCell: &btpb.Mutation_SetCell{
				FamilyName: m.Fam, ColumnQualifier: m.Qual, TimestampMicros: m.TS, Value: m.Val}}})
		case "delcol":
			d := &btpb.Mutation_DeleteFromColumn{FamilyName: m.Fam, ColumnQualifier: m.Qual}
			if m.HasRange {
				d.TimeRange = &btpb.TimestampRange{StartTimestampMicros: m.T0, EndTimestampMicros: m.T1}
			}
			out = append(out, &btpb.Mutation{Mutation: &btpb.Mutation_DeleteFromColumn_{DeleteFromColumn: d}})
		case "delfam":
			out = append(out, &btpb.Mutation{Mutation: &btpb.Mutation_DeleteFromFamily_{DeleteFromFamily: &btpb.Mutation_DeleteFromFamily{FamilyName: m.Fam}}})
		case "delrow":
			out = append(out, &btpb.Mutation{Mutation: &btpb.Mutation_DeleteFromRow_{DeleteFromRow: &btpb.Mutation_DeleteFromRow{}}})
		default:
			out = append(out, &btpb.Mutation{})
		}
	}
	return out
}

func (f *Filter) Proto() *btpb.RowFilter {
	if f == nil {
		return nil
	}
	switch f.Kind {
	case "pass":
		return &btpb.RowFilter{Filter: &btpb.RowFilter_PassAllFilter{PassAllFilter: f.B}}
	case "block":
		return &btpb.RowFilter{Filter: &btpb.RowFilter_BlockAllFilter{BlockAllFilter: f.B}}
	case "key_re":
		return &btpb.RowFilter{Filter: &btpb.RowFilter_RowKeyRegexFilter{RowKeyRegexFilter: f.S}}
	case "fam_re":
		return &btpb.RowFilter{Filter: &btpb.RowFilter_FamilyNameRegexFilter{FamilyNameRegexFilter: string(f.S)}}
	case "qual_re":
		return &btpb.RowFilter{Filter: &btpb.RowFilter_ColumnQualifierRegexFilter{ColumnQualifierRegexFilter: f.S}}
	case "val_re":
		return &btpb.RowFilter{Filter: &btpb.RowFilter_ValueRegexFilter{ValueRegexFilter: f.S}}
	case "col_range":
		cr := &btpb.ColumnRange{FamilyName: f.Fam}
		switch f.SK {
		case 1:
			cr.StartQualifier = &btpb.ColumnRange_StartQualifierClosed{StartQualifierClosed: f.Start}
		case 2:
			cr.StartQualifier = &btpb.ColumnRange_StartQualifierOpen{StartQualifierOpen: f.Start}
		}
		switch f.EK {
		case 1:
			cr.EndQualifier = &btpb.ColumnRange_EndQualifierClosed{EndQualifierClosed: f.End}
		case 2:
			cr.EndQualifier = &btpb.ColumnRange_EndQualifierOpen{EndQualifierOpen: f.End}
		}
		return &btpb.RowFilter{Filter: &btpb.RowFilter_ColumnRangeFilter{ColumnRangeFilter: cr}}
	case "val_range":
		vr := &btpb.ValueRange{}
		switch f.SK {
		case 1:
			vr.StartValue = &btpb.ValueRange_StartValueClosed{StartValueClosed: f.Start}
		case 2:
			vr.StartValue = &btpb.ValueRange_StartValueOpen{StartValueOpen: f.Start}
		}
		switch f.EK {
		case 1:
			vr.EndValue = &btpb.ValueRange_EndValueClosed{EndValueClosed: f.End}
		case 2:
			vr.EndValue = &btpb.ValueRange_EndValueOpen{EndValueOpen: f.End}
		}
		return &btpb.RowFilter{Filter: &btpb.RowFilter_ValueRangeFilter{ValueRangeFilter: vr}}
	case "ts_range":
		return &btpb.RowFilter{Filter: &btpb.RowFilter_TimestampRangeFilter{TimestampRangeFilter: &btpb.TimestampRange{StartTimestampMicros: f.T0, EndTimestampMicros: f.T1}}}
	case "row_limit":
		return &btpb.RowFilter{Filter: &btpb.RowFilter_CellsPerRowLimitFilter{CellsPerRowLimitFilter: f.N}}
	case "row_offset":
		return &btpb.RowFilter{Filter: &btpb.RowFilter_CellsPerRowOffsetFilter{CellsPerRowOffsetFilter: f.N}}
	case "col_limit":
		return &btpb.RowFilter{Filter: &btpb.RowFilter_CellsPerColumnLimitFilter{CellsPerColumnLimitFilter: f.N}}
	case "strip":
		return &btpb.RowFilter{Filter: &btpb.RowFilter_StripValueTransformer{StripValueTransformer: true}}
	case "label":
		return &btpb.RowFilter{Filter: &btpb.RowFilter_ApplyLabelTransformer{ApplyLabelTransformer: string(f.S)}}
	case "sample":
		return &btpb.RowFilter{Filter: &btpb.RowFilter_RowSampleFilter{RowSampleFilter: f.P}}
	case "chain":
		c := &btpb.RowFilter_Chain{}
		for _, s := range f.Subs {
			c.Filters = append(c.Filters, s.Proto())
		}
		return &btpb.RowFilter{Filter: &btpb.RowFilter_Chain_{Chain: c}}
	case "interleave":
		c := &btpb.RowFilter_Interleave{}
		for _, s := range f.Subs {
			c.Filters = append(c.Filters, s.Proto())
		}
		return &btpb.RowFilter{Filter: &btpb.RowFilter_Interleave_{Interleave: c}}
	case "cond":
		return &btpb.RowFilter{Filter: &btpb.RowFilter_Condition_{Condition: &btpb.RowFilter_Condition{
			PredicateFilter: f.Pred.Proto(), TrueFilter: f.True.Proto(), FalseFilter: f.False.Proto()}}}
	case "sink":
		return &btpb.RowFilter{Filter: &btpb.RowFilter_Sink{Sink: true}}
	case "empty":
		return &btpb.RowFilter{}
	}
	panic("unknown filter kind " + f.Kind)
}

func ReadReq(o *Op) *btpb.ReadRowsRequest {
	req := &btpb.ReadRowsRequest{TableName: o.Table, Filter: o.Filter.Proto(), RowsLimit: o.Limit}
	if o.HasRowSet {
		rs := &btpb.RowSet{RowKeys: o.Keys}
		for _, r := range o.Ranges {
			rr := &btpb.RowRange{}
			switch r.SK {
			case 1:
				rr.StartKey = &btpb.RowRange_StartKeyClosed{StartKeyClosed: r.S}
			case 2:
				rr.StartKey = &btpb.RowRange_StartKeyOpen{StartKeyOpen: r.S}
			}
			switch r.EK {
			case 1:
				rr.EndKey = &btpb.RowRange_EndKeyClosed{EndKeyClosed: r.E}
			case 2:
				rr.EndKey = &btpb.RowRange_EndKeyOpen{EndKeyOpen: r.E}
			}
			rs.RowRanges = append(rs.RowRanges, rr)
		}
		req.Rows = rs
	}
	return req
}

// ---- stream fakes -------------------------------------------------------------------------------

type fakeStream struct{ ctx context.Context }

func (fakeStream) SetHeader(metadata.MD) error  { return nil }
func (fakeStream) SendHeader(metadata.MD) error { return nil }
func (fakeStream) SetTrailer(metadata.MD)       {}
func (f fakeStream) Context() context.Context {
	if f.ctx != nil {
		return f.ctx
	}
	return context.Background()
}
func (fakeStream) SendMsg(interface{}) error { return nil }
func (fakeStream) RecvMsg(interface{}) error { return nil }

type readStream struct {
	fakeStream
	msgs   []*btpb.ReadRowsResponse
	sent   []*btpb.ReadRowsResponse // the very objects handed to Send (must not change afterwards)
	OnSend func(n int)
}

//go:norace
func yield(tag string) {
	if t := sched.Cur(); t != nil {
		t.Point(tag)
	}
}

func (s *readStream) Send(m *btpb.ReadRowsResponse) error {
	c := roundTrip(m, &btpb.ReadRowsResponse{})
	s.msgs = append(s.msgs, c)
	s.sent = append(s.sent, m)
	if s.OnSend != nil {
		s.OnSend(len(s.msgs))
	}
	yield("ReadRows.Send")
	return nil
}

type mutStream struct {
	fakeStream
	msgs []*btpb.MutateRowsResponse
}

func (s *mutStream) Send(m *btpb.MutateRowsResponse) error {
	s.msgs = append(s.msgs, roundTrip(m, &btpb.MutateRowsResponse{}))
	yield("MutateRows.Send")
	return nil
}

type sampleStream struct {
	fakeStream
	msgs []*btpb.SampleRowKeysResponse
}

func (s *sampleStream) Send(m *btpb.SampleRowKeysResponse) error {
	s.msgs = append(s.msgs, roundTrip(m, &btpb.SampleRowKeysResponse{}))
	yield("SampleRowKeys.Send")
	return nil
}

// DecodeChunks is an independent implementation of the client-side chunk state machine.
// It returns the rows and a description of the first well-formedness violation ("" if none).
func DecodeChunks(msgs []*btpb.ReadRowsResponse) ([]RowOut, string) {
	var rows []RowOut
	var cur *RowOut
	var curCellOpen bool
	for mi, m := range msgs {
		for ci, ch := range m.Chunks {
			where := fmt.Sprintf("message %d chunk %d", mi, ci)
			if ch.GetResetRow() {
				if cur == nil {
					return rows, where + ": reset_row outside a row"
				}
				cur, curCellOpen = nil, false
				continue
			}
			if cur == nil {
				if len(ch.RowKey) == 0 {
					return rows, where + ": chunk belongs to no row (no row key at row start)"
				}
				if ch.FamilyName == nil {
					return rows, where + ": row does not start with a family name"
				}
				if ch.Qualifier == nil {
					return rows, where + ": row does not start with a qualifier"
				}
				cur = &RowOut{Key: string(ch.RowKey)}
			} else if len(ch.RowKey) != 0 && string(ch.RowKey) != cur.Key {
				return rows, where + fmt.Sprintf(": row key %q inside uncommitted row %q (missing commit)", ch.RowKey, cur.Key)
			}
			if curCellOpen {
				// continuation of a split cell value: it carries value bytes only (what the official client enforces:
				// "cell key components found while CELL_IN_PROGRESS")
				if ch.FamilyName != nil || ch.Qualifier != nil || ch.TimestampMicros != 0 || len(ch.Labels) != 0 {
					return rows, where + ": a chunk that continues a cell value repeats key components of the cell (family / qualifier / timestamp / labels)"
				}
				f := &cur.Fams[len(cur.Fams)-1]
				c := &f.Cols[len(f.Cols)-1]
				c.Cells[len(c.Cells)-1].Val += string(ch.Value)
			} else {
				if ch.FamilyName != nil {
					if ch.Qualifier == nil {
						return rows, where + ": family name without qualifier"
					}
					cur.Fams = append(cur.Fams, FamOut{Name: ch.FamilyName.Value})
				}
				if len(cur.Fams) == 0 {
					return rows, where + ": cell without family"
				}
				f := &cur.Fams[len(cur.Fams)-1]
				if ch.Qualifier != nil {
					f.Cols = append(f.Cols, ColOut{Qual: string(ch.Qualifier.Value)})
				}
				if len(f.Cols) == 0 {
					return rows, where + ": cell without qualifier"
				}
				c := &f.Cols[len(f.Cols)-1]
				c.Cells = append(c.Cells, CellOut{TS: ch.TimestampMicros, Val: string(ch.Value), Labels: append([]string(nil), ch.Labels...)})
			}
			curCellOpen = ch.ValueSize > 0
			if ch.GetCommitRow() {
				if curCellOpen {
					return rows, where + ": commit in the middle of a cell"
				}
				rows = append(rows, *cur)
				cur = nil
			}
		}
	}
	if cur != nil {
		return rows, fmt.Sprintf("stream ended inside row %q (no commit)", cur.Key)
	}
	return rows, ""
}

func rowFromProto(r *btpb.Row) RowOut {
	ro := RowOut{Key: string(r.GetKey())}
	for _, f := range r.GetFamilies() {
		fo := FamOut{Name: f.Name}
		for _, c := range f.Columns {
			co := ColOut{Qual: string(c.Qualifier)}
			for _, ce := range c.Cells {
				co.Cells = append(co.Cells, CellOut{TS: ce.TimestampMicros, Val: string(ce.Value), Labels: ce.Labels})
			}
			fo.Cols = append(fo.Cols, co)
		}
		ro.Fams = append(ro.Fams, fo)
	}
	return ro
}

// Apply executes one request against the real implementation.
func (d *Driver) Apply(o *Op) (resp Resp) {
	if d.Poisoned {
		return Resp{Panic: "instance poisoned by an earlier panic"}
	}
	d.installSeams(o.Coins)
	yield("request") // a request boundary is a scheduling point
	defer func() {
		if r := recover(); r != nil {
			if r == gcDone {
				resp = Resp{Code: "OK"}
				return
			}
			d.Poisoned = true
			resp = Resp{Panic: fmt.Sprintf("%v\n%s", r, trimStack(debug.Stack()))}
		}
	}()
	ctx := context.Background()
	S := d.S
	switch o.Kind {
	case "SetClock":
		d.Clock = o.Clock
		return Resp{Code: "OK"}
	case "CreateTable":
		req := &btapb.CreateTableRequest{Parent: o.Parent, TableId: o.TableID}
		if !o.NoTable {
			req.Table = &btapb.Table{}
			if o.Fams != nil {
				req.Table.ColumnFamilies = map[string]*btapb.ColumnFamily{}
				for k, v := range o.Fams {
					req.Table.ColumnFamilies[k] = &btapb.ColumnFamily{GcRule: v.Proto()}
				}
			}
		}
		t, err := S.CreateTable(ctx, roundTrip(req, &btapb.CreateTableRequest{}))
		c, msg := codeOf(err)
		if err != nil {
			return Resp{Code: c, Msg: msg}
		}
		wireOut(t)
		return Resp{Code: "OK", Fams: famsFromProto(t), HasFams: true}
	case "GetTable":
		t, err := S.GetTable(ctx, roundTrip(&btapb.GetTableRequest{Name: o.Table}, &btapb.GetTableRequest{}))
		c, msg := codeOf(err)
		if err != nil {
			return Resp{Code: c, Msg: msg}
		}
		wireOut(t)
		return Resp{Code: "OK", Fams: famsFromProto(t), HasFams: true}
	case "ListTables":
		r, err := S.ListTables(ctx, roundTrip(&btapb.ListTablesRequest{Parent: o.Parent}, &btapb.ListTablesRequest{}))
		c, msg := codeOf(err)
		if err != nil {
			return Resp{Code: c, Msg: msg}
		}
		wireOut(r)
		var names []string
		for _, t := range r.Tables {
			names = append(names, t.Name)
		}
		sort.Strings(names)
		return Resp{Code: "OK", Tables: names}
	case "DeleteTable":
		_, err := S.DeleteTable(ctx, roundTrip(&btapb.DeleteTableRequest{Name: o.Table}, &btapb.DeleteTableRequest{}))
		c, msg := codeOf(err)
		return Resp{Code: c, Msg: msg}
	case "ModifyFamilies":
		req := &btapb.ModifyColumnFamiliesRequest{Name: o.Table}
		for _, m := range o.Mods {
			mod := &btapb.ModifyColumnFamiliesRequest_Modification{Id: m.ID}
			switch m.Op {
			case "create":
				mod.Mod = &btapb.ModifyColumnFamiliesRequest_Modification_Create{Create: &btapb.ColumnFamily{GcRule: m.GC.Proto()}}
			case "update":
				mod.Mod = &btapb.ModifyColumnFamiliesRequest_Modification_Update{Update: &btapb.ColumnFamily{GcRule: m.GC.Proto()}}
			case "drop":
				mod.Mod = &btapb.ModifyColumnFamiliesRequest_Modification_Drop{Drop: true}
			}
			req.Modifications = append(req.Modifications, mod)
		}
		t, err := S.ModifyColumnFamilies(ctx, roundTrip(req, &btapb.ModifyColumnFamiliesRequest{}))
		c, msg := codeOf(err)
		if err != nil {
			return Resp{Code: c, Msg: msg}
		}
		wireOut(t)
		return Resp{Code: "OK", Fams: famsFromProto(t), HasFams: true}
	case "DropRowRange":
		req := &btapb.DropRowRangeRequest{Name: o.Table}
		if o.All {
			req.Target = &btapb.DropRowRangeRequest_DeleteAllDataFromTable{DeleteAllDataFromTable: true}
		} else if o.AllFalse {
			req.Target = &btapb.DropRowRangeRequest_DeleteAllDataFromTable{DeleteAllDataFromTable: false}
		} else {
			req.Target = &btapb.DropRowRangeRequest_RowKeyPrefix{RowKeyPrefix: o.Prefix}
		}
		_, err := S.DropRowRange(ctx, roundTrip(req, &btapb.DropRowRangeRequest{}))
		c, msg := codeOf(err)
		return Resp{Code: c, Msg: msg}
	case "Shutdown":
		// the emulator is stopped (the public Server.Close) while other requests may be in flight; only meaningful
		// on an engine whose rows survive Close (btree): what is judged is that nothing deadlocks
		S.VerifCloseAsServer()
		return Resp{Code: "OK"}
	case "GenToken":
		r, err := S.GenerateConsistencyToken(ctx, roundTrip(&btapb.GenerateConsistencyTokenRequest{Name: o.Table}, &btapb.GenerateConsistencyTokenRequest{}))
		c, msg := codeOf(err)
		if err != nil {
			return Resp{Code: c, Msg: msg}
		}
		return Resp{Code: "OK", Token: r.ConsistencyToken}
	case "CheckConsistency":
		r, err := S.CheckConsistency(ctx, roundTrip(&btapb.CheckConsistencyRequest{Name: o.Table, ConsistencyToken: o.Token}, &btapb.CheckConsistencyRequest{}))
		c, msg := codeOf(err)
		if err != nil {
			return Resp{Code: c, Msg: msg}
		}
		return Resp{Code: "OK", Matched: boolp(r.Consistent)}
	case "MutateRow":
		req := &btpb.MutateRowRequest{TableName: o.Table, RowKey: o.Key, Mutations: MutsProto(o.Muts)}
		r, err := S.MutateRow(ctx, roundTrip(req, &btpb.MutateRowRequest{}))
		c, msg := codeOf(err)
		if err == nil {
			wireOut(r)
		}
		return Resp{Code: c, Msg: msg}
	case "MutateRows":
		req := &btpb.MutateRowsRequest{TableName: o.Table}
		for _, e := range o.Entries {
			req.Entries = append(req.Entries, &btpb.MutateRowsRequest_Entry{RowKey: e.Key, Mutations: MutsProto(e.Muts)})
		}
		st := &mutStream{}
		err := S.MutateRows(roundTrip(req, &btpb.MutateRowsRequest{}), st)
		c, msg := codeOf(err)
		if err != nil {
			return Resp{Code: c, Msg: msg}
		}
		res := Resp{Code: "OK", Entries: make([]string, len(o.Entries))}
		seen := make([]bool, len(o.Entries))
		for _, m := range st.msgs {
			for _, e := range m.Entries {
				if e.Index < 0 || int(e.Index) >= len(seen) || seen[e.Index] {
					res.Malformed = fmt.Sprintf("MutateRows entry index %d out of range or repeated", e.Index)
					return res
				}
				seen[e.Index] = true
				res.Entries[e.Index] = codes.Code(e.GetStatus().GetCode()).String()
			}
		}
		for i, s := range seen {
			if !s {
				res.Malformed = fmt.Sprintf("MutateRows: no status for entry %d", i)
			}
		}
		return res
	case "CheckAndMutate":
		req := &btpb.CheckAndMutateRowRequest{TableName: o.Table, RowKey: o.Key, PredicateFilter: o.Pred.Proto(),
			TrueMutations: MutsProto(o.TrueM), FalseMutations: MutsProto(o.FalseM)}
		r, err := S.CheckAndMutateRow(ctx, roundTrip(req, &btpb.CheckAndMutateRowRequest{}))
		c, msg := codeOf(err)
		if err != nil {
			return Resp{Code: c, Msg: msg}
		}
		wireOut(r)
		return Resp{Code: "OK", Matched: boolp(r.PredicateMatched)}
	case "RMW":
		req := &btpb.ReadModifyWriteRowRequest{TableName: o.Table, RowKey: o.Key}
		for _, ru := range o.Rules {
			r := &btpb.ReadModifyWriteRule{FamilyName: ru.Fam, ColumnQualifier: ru.Qual}
			if ru.Unset {
			} else if ru.IsInc {
				r.Rule = &btpb.ReadModifyWriteRule_IncrementAmount{IncrementAmount: ru.Inc}
			} else {
				r.Rule = &btpb.ReadModifyWriteRule_AppendValue{AppendValue: ru.Append}
			}
			req.Rules = append(req.Rules, r)
		}
		r, err := S.ReadModifyWriteRow(ctx, roundTrip(req, &btpb.ReadModifyWriteRowRequest{}))
		c, msg := codeOf(err)
		if err != nil {
			return Resp{Code: c, Msg: msg}
		}
		rr := roundTrip(r, &btpb.ReadModifyWriteRowResponse{})
		return Resp{Code: "OK", Rows: []RowOut{rowFromProto(rr.Row)}}
	case "ReadRows":
		st := &readStream{}
		err := S.ReadRows(roundTrip(ReadReq(o), &btpb.ReadRowsRequest{}), st)
		c, msg := codeOf(err)
		rows, bad := DecodeChunks(st.msgs)
		res := Resp{Code: c, Msg: msg, Rows: rows, Messages: len(st.msgs)}
		if err == nil {
			res.Malformed = bad
		}
		// grpc-go: "it is not safe to modify the message after calling SendMsg" (stats handlers,
		// interceptors and in-process transports read it later): what was sent must still be what is there
		for i := range st.sent {
			if !proto.Equal(st.sent[i], st.msgs[i]) {
				res.Malformed = fmt.Sprintf("response message #%d of %d was modified by the server after it had been handed to Send", i, len(st.sent))
				break
			}
		}
		return res
	case "SampleRowKeys":
		st := &sampleStream{}
		err := S.SampleRowKeys(roundTrip(&btpb.SampleRowKeysRequest{TableName: o.Table}, &btpb.SampleRowKeysRequest{}), st)
		c, msg := codeOf(err)
		res := Resp{Code: c, Msg: msg}
		for _, m := range st.msgs {
			res.Samples = append(res.Samples, SampleOut{Key: string(m.RowKey), Offset: m.OffsetBytes})
		}
		return res
	case "GC":
		d.GCPass(time.Duration(o.Adv))
		return Resp{Code: "OK"}
	case "Advance":
		vtime.Advance(time.Duration(o.Adv))
		return Resp{Code: "OK"}
	}
	panic("driver: unknown op " + o.Kind)
}

var gcDone = fmt.Errorf("verif: gc loop budget exhausted")

// GCPass advances the wall clock and runs exactly one iteration of the real background GC
// loop (the loop's timer is the vtime seam: the first wait is over at once, the second one
// ends the loop by unwinding to here).
func (d *Driver) GCPass(adv time.Duration) {
	vtime.Advance(adv)
	n := 0
	vtime.SetAfterFn(func(time.Duration) <-chan time.Time {
		n++
		if n > 1 {
			panic(gcDone)
		}
		ch := make(chan time.Time, 1)
		ch <- time.Time{}
		return ch
	})
	defer func() {
		vtime.SetAfterFn(nil)
		if r := recover(); r != nil && r != gcDone {
			panic(r)
		}
	}()
	d.S.VerifGCLoop()
}

func trimStack(b []byte) string {
	lines := strings.Split(string(b), "\n")
	var keep []string
	for i := 0; i < len(lines); i++ {
		l := lines[i]
		if strings.Contains(l, "emulators/") && !strings.Contains(l, "verif_export") {
			keep = append(keep, strings.TrimSpace(l))
			if i+1 < len(lines) {
				keep = append(keep, "   "+strings.TrimSpace(lines[i+1]))
			}
		}
		if len(keep) >= 10 {
			break
		}
	}
	return strings.Join(keep, "\n")
}

// Dump renders the raw stored state (every table definition and every stored row exactly as
// stored, including rows without cells and the in-row family order) as a canonical string.
func (d *Driver) Dump() string {
	if d.Poisoned {
		return "poisoned"
	}
	var sb strings.Builder
	det := proto.MarshalOptions{Deterministic: true}
	for _, t := range d.S.VerifDump() {
		fmt.Fprintf(&sb, "T %s {%s}\n", t.Name, famsString(famsFromProto(t.Def)))
		for _, r := range t.Rows {
			b, _ := det.Marshal(r)
			sb.WriteString(hex.EncodeToString(b))
			sb.WriteByte('\n')
		}
	}
	return sb.String()
}

// RawRows returns the stored rows of a table as stored (ghost rows included).
func (d *Driver) RawRows(table string) []RowOut {
	for _, t := range d.S.VerifDump() {
		if t.Name == table {
			var out []RowOut
			for _, r := range t.Rows {
				out = append(out, rowFromProto(r))
			}
			return out
		}
	}
	return nil
}

// FamOrder returns the order in which the implementation stores the families of a row.
func (d *Driver) FamOrder(table, key string) []string {
	r := d.Apply(&Op{Kind: "ReadRows", Table: table, HasRowSet: true, Keys: [][]byte{[]byte(key)}})
	if len(r.Rows) == 1 {
		var out []string
		for _, f := range r.Rows[0].Fams {
			out = append(out, f.Name)
		}
		return out
	}
	return nil
}
