package bt

import (
	btapb "cloud.google.com/go/bigtable/admin/apiv2/adminpb"
	btpb "cloud.google.com/go/bigtable/apiv2/bigtablepb"
	"github.com/fullstorydev/emulators/bigtable/bttest"
)

// PointStorage wraps a Storage so that every access to the rows of a table is a scheduling
// point (a no-op when no controlled execution is active). Nothing else changes.
type PointStorage struct {
	bttest.Storage
	// IterPoints: also yield before every row handed to an iteration callback.
	IterPoints bool
	// Quiet: no scheduling points at all at the storage calls (only the locks and Sends of the service remain);
	// for scenarios in which a request touches hundreds of rows under one table lock.
	Quiet bool
	// OnCreate, if set, receives the raw (unwrapped) Rows of every table that is created, so that a
	// harness can pre-populate large fixtures without paying the API path on every execution.
	OnCreate func(name string, rows bttest.Rows)
}

func (p PointStorage) Create(t *btapb.Table) bttest.Rows {
	yield("Storage.Create")
	inner := p.Storage.Create(t)
	if p.OnCreate != nil {
		p.OnCreate(t.Name, inner)
	}
	return &pointRows{Rows: inner, iter: p.IterPoints, quiet: p.Quiet}
}
func (p PointStorage) Open(t *btapb.Table) bttest.Rows {
	return &pointRows{Rows: p.Storage.Open(t), iter: p.IterPoints, quiet: p.Quiet}
}

// DeleteTableMeta forwards the optional storage method the service looks for with a type assertion (the wrapper
// would otherwise hide it and a deleted table would never be forgotten on disk).
func (p PointStorage) DeleteTableMeta(t *btapb.Table) {
	yield("Storage.DeleteTableMeta")
	if d, ok := p.Storage.(interface{ DeleteTableMeta(tbl *btapb.Table) }); ok {
		d.DeleteTableMeta(t)
	}
}

func (p PointStorage) SetTableMeta(t *btapb.Table) {
	yield("Storage.SetTableMeta")
	p.Storage.SetTableMeta(t)
}

type pointRows struct {
	bttest.Rows
	iter  bool
	quiet bool
}

func (r *pointRows) yield(tag string) {
	if !r.quiet {
		yield(tag)
	}
}

func (r *pointRows) wrap(it bttest.RowIterator) bttest.RowIterator {
	if !r.iter {
		return it
	}
	return func(row *btpb.Row) bool {
		r.yield("Rows.iterate")
		return it(row)
	}
}
func (r *pointRows) Ascend(it bttest.RowIterator) { r.yield("Rows.Ascend"); r.Rows.Ascend(r.wrap(it)) }
func (r *pointRows) AscendRange(a, b []byte, it bttest.RowIterator) {
	r.yield("Rows.AscendRange")
	r.Rows.AscendRange(a, b, r.wrap(it))
}
func (r *pointRows) AscendLessThan(b []byte, it bttest.RowIterator) {
	r.yield("Rows.AscendLessThan")
	r.Rows.AscendLessThan(b, r.wrap(it))
}
func (r *pointRows) AscendGreaterOrEqual(a []byte, it bttest.RowIterator) {
	r.yield("Rows.AscendGreaterOrEqual")
	r.Rows.AscendGreaterOrEqual(a, r.wrap(it))
}
func (r *pointRows) Clear()                 { r.yield("Rows.Clear"); r.Rows.Clear() }
func (r *pointRows) Delete(k []byte)        { r.yield("Rows.Delete"); r.Rows.Delete(k) }
func (r *pointRows) Get(k []byte) *btpb.Row { r.yield("Rows.Get"); return r.Rows.Get(k) }
func (r *pointRows) ReplaceOrInsert(row *btpb.Row) {
	r.yield("Rows.ReplaceOrInsert")
	r.Rows.ReplaceOrInsert(row)
}
