package bt

import (
	"bytes"
	"encoding/binary"
	"fmt"
	"sort"
	"strings"
)

// Reference model of the Bigtable data API, written from the API documentation; deliberately
// naive: maps and slices, no range merging, no shared code with the implementation.

type CK struct {
	Fam, Qual string
	TS        int64
}

type MRow map[CK]string

type MTable struct {
	Fams      map[string]*GC
	Rows      map[string]MRow
	LastRead  int64 // wall ns of the last data read
	LastWrite int64 // wall ns of the last data write
	Dirty     bool  // written since the last GC pass
}

type Model struct {
	Tables map[string]*MTable
	Clock  int64 // server clock, µs
	// Defects switches on defect-aware variants (used only to recognise listed known findings).
	Defects map[string]bool
}

func NewModel() *Model { return &Model{Tables: map[string]*MTable{}, Clock: 1_000_000} }

type MCell struct {
	Fam, Qual string
	TS        int64
	Val       string
	Labels    []string
}

func validTS(ts int64) bool { return ts >= 0 && ts <= MaxTS && ts%1000 == 0 }

func (r MRow) clone() MRow {
	n := make(MRow, len(r))
	for k, v := range r {
		n[k] = v
	}
	return n
}

// applyMuts applies the mutations in order to a copy; any error discards the copy.
func (m *Model) applyMuts(t *MTable, row MRow, muts []Mut) (MRow, error) {
	r := row.clone()
	for _, mu := range muts {
		switch mu.Kind {
		case "set":
			if _, ok := t.Fams[mu.Fam]; !ok {
				return nil, fmt.Errorf("unknown family %q", mu.Fam)
			}
			ts := mu.TS
			if ts == -1 {
				ts = m.Clock - m.Clock%1000
			}
			if !validTS(ts) {
				return nil, fmt.Errorf("invalid timestamp %d", ts)
			}
			r[CK{mu.Fam, string(mu.Qual), ts}] = string(mu.Val)
		case "delcol":
			if _, ok := t.Fams[mu.Fam]; !ok {
				return nil, fmt.Errorf("unknown family %q", mu.Fam)
			}
			if mu.HasRange {
				if !validTS(mu.T0) {
					return nil, fmt.Errorf("invalid start timestamp")
				}
				if mu.T1 != 0 && !validTS(mu.T1) {
					return nil, fmt.Errorf("invalid end timestamp")
				}
				if mu.T1 != 0 && mu.T0 >= mu.T1 {
					return nil, fmt.Errorf("inverted range")
				}
			}
			for k := range r {
				if k.Fam != mu.Fam || k.Qual != string(mu.Qual) {
					continue
				}
				if !mu.HasRange || (k.TS >= mu.T0 && (mu.T1 == 0 || k.TS < mu.T1)) {
					delete(r, k)
				}
			}
		case "delfam":
			if _, ok := t.Fams[mu.Fam]; !ok {
				return nil, fmt.Errorf("unknown family %q", mu.Fam)
			}
			for k := range r {
				if k.Fam == mu.Fam {
					delete(r, k)
				}
			}
		case "delrow":
			for k := range r {
				delete(r, k)
			}
		default:
			return nil, fmt.Errorf("unset mutation")
		}
	}
	return r, nil
}

func (t *MTable) store(key string, r MRow) {
	if len(r) == 0 {
		delete(t.Rows, key)
	} else {
		t.Rows[key] = r
	}
}

// Cells returns the row's cells as a flat list in (family order, qualifier asc, ts desc) order.
// famOrder lists the families in the order the implementation presents them (the data model
// leaves it open); families missing from it are appended in name order.
func Cells(r MRow, famOrder []string) []MCell {
	idx := map[string]int{}
	for i, f := range famOrder {
		if _, ok := idx[f]; !ok {
			idx[f] = i
		}
	}
	var rest []string
	for k := range r {
		if _, ok := idx[k.Fam]; !ok {
			idx[k.Fam] = -1
			rest = append(rest, k.Fam)
		}
	}
	sort.Strings(rest)
	for i, f := range rest {
		idx[f] = len(famOrder) + i
	}
	cs := make([]MCell, 0, len(r))
	for k, v := range r {
		cs = append(cs, MCell{Fam: k.Fam, Qual: k.Qual, TS: k.TS, Val: v})
	}
	sortCells(cs, idx)
	return cs
}

func sortCells(cs []MCell, idx map[string]int) {
	sort.SliceStable(cs, func(i, j int) bool {
		a, b := cs[i], cs[j]
		if a.Fam != b.Fam {
			return idx[a.Fam] < idx[b.Fam]
		}
		if a.Qual != b.Qual {
			return a.Qual < b.Qual
		}
		return a.TS > b.TS
	})
}

func ToRowOut(key string, cs []MCell) RowOut {
	ro := RowOut{Key: key}
	for _, c := range cs {
		if len(ro.Fams) == 0 || ro.Fams[len(ro.Fams)-1].Name != c.Fam {
			ro.Fams = append(ro.Fams, FamOut{Name: c.Fam})
		}
		f := &ro.Fams[len(ro.Fams)-1]
		if len(f.Cols) == 0 || f.Cols[len(f.Cols)-1].Qual != c.Qual {
			f.Cols = append(f.Cols, ColOut{Qual: c.Qual})
		}
		col := &f.Cols[len(f.Cols)-1]
		col.Cells = append(col.Cells, CellOut{TS: c.TS, Val: c.Val, Labels: c.Labels})
	}
	return ro
}

// ---- filters --------------------------------------------------------------------------------

type errInvalid struct{ msg string }

func (e errInvalid) Error() string { return e.msg }

type fenv struct {
	coins     []bool
	ncoin     int
	ambiguous string
	famIdx    map[string]int
	dupTS     bool // the current list holds two cells with equal (fam,qual,ts) and different payload
}

func (e *fenv) coin() bool {
	i := e.ncoin
	e.ncoin++
	if i < len(e.coins) {
		return e.coins[i]
	}
	e.ambiguous = "more coin flips than supplied"
	return false
}

// StaticInvalid reports whether the tree contains an argument the API defines as invalid.
func StaticInvalid(f *Filter) bool {
	if f == nil {
		return false
	}
	switch f.Kind {
	case "pass", "block":
		return !f.B
	case "key_re", "fam_re", "qual_re", "val_re":
		_, err := compileRE(f.S)
		return err != nil
	case "ts_range":
		return f.T0%1000 != 0 || f.T1%1000 != 0
	case "row_limit", "row_offset", "col_limit":
		return f.N < 0
	case "sample":
		return f.P <= 0 || f.P >= 1
	case "chain", "interleave":
		if len(f.Subs) < 2 {
			return true
		}
		for _, s := range f.Subs {
			if StaticInvalid(s) {
				return true
			}
		}
	case "cond":
		return StaticInvalid(f.Pred) || StaticInvalid(f.True) || StaticInvalid(f.False)
	}
	return false
}

func hasDupTS(cs []MCell) bool {
	for i := 1; i < len(cs); i++ {
		a, b := cs[i-1], cs[i]
		if a.Fam == b.Fam && a.Qual == b.Qual && a.TS == b.TS && (a.Val != b.Val || strings.Join(a.Labels, ",") != strings.Join(b.Labels, ",")) {
			return true
		}
	}
	return false
}

func inRange(v []byte, sk int, s []byte, ek int, e []byte) bool {
	switch sk {
	case 1:
		if bytes.Compare(v, s) < 0 {
			return false
		}
	case 2:
		if bytes.Compare(v, s) <= 0 {
			return false
		}
	}
	switch ek {
	case 1:
		if bytes.Compare(v, e) > 0 {
			return false
		}
	case 2:
		if bytes.Compare(v, e) >= 0 {
			return false
		}
	}
	return true
}

func (m *Model) evalFilter(f *Filter, key string, L []MCell, env *fenv) ([]MCell, error) {
	if f == nil {
		return L, nil
	}
	keep := func(p func(c MCell) bool) []MCell {
		var out []MCell
		for _, c := range L {
			if p(c) {
				out = append(out, c)
			}
		}
		return out
	}
	if len(L) == 0 {
		switch f.Kind {
		case "fam_re", "qual_re", "val_re", "ts_range", "col_range", "val_range", "strip", "label":
			// cell-level filters have nothing to evaluate on an empty list: an invalid argument is
			// not "reached" (the caller reports such cases as ambiguous via StaticInvalid)
			return nil, nil
		}
	}
	switch f.Kind {
	case "pass":
		if !f.B {
			return nil, errInvalid{"pass_all_filter must be true"}
		}
		return L, nil
	case "block":
		if !f.B {
			return nil, errInvalid{"block_all_filter must be true"}
		}
		return nil, nil
	case "key_re":
		re, err := compileRE(f.S)
		if err != nil {
			return nil, errInvalid{"bad regex"}
		}
		if re.match([]byte(key)) {
			return L, nil
		}
		return nil, nil
	case "fam_re", "qual_re", "val_re":
		re, err := compileRE(f.S)
		if err != nil {
			return nil, errInvalid{"bad regex"}
		}
		return keep(func(c MCell) bool {
			switch f.Kind {
			case "fam_re":
				return re.match([]byte(c.Fam))
			case "qual_re":
				return re.match([]byte(c.Qual))
			}
			return re.match([]byte(c.Val))
		}), nil
	case "col_range":
		return keep(func(c MCell) bool {
			return c.Fam == f.Fam && inRange([]byte(c.Qual), f.SK, f.Start, f.EK, f.End)
		}), nil
	case "val_range":
		return keep(func(c MCell) bool { return inRange([]byte(c.Val), f.SK, f.Start, f.EK, f.End) }), nil
	case "ts_range":
		if f.T0%1000 != 0 || f.T1%1000 != 0 {
			return nil, errInvalid{"timestamp range not in milliseconds"}
		}
		return keep(func(c MCell) bool { return c.TS >= f.T0 && (f.T1 == 0 || c.TS < f.T1) }), nil
	case "row_offset", "row_limit":
		if f.N < 0 {
			return nil, errInvalid{"negative count"}
		}
		if env.dupTS && hasDupTS(L) {
			env.ambiguous = "order-sensitive filter after an interleave that produced equal-timestamp duplicates with different payload"
		}
		if multiFam(L) && env.famIdx == nil {
			env.ambiguous = "order-sensitive filter across families without a family order"
		}
		n := int(f.N)
		if f.Kind == "row_offset" {
			if n >= len(L) {
				return nil, nil
			}
			return L[n:], nil
		}
		if n >= len(L) {
			return L, nil
		}
		return L[:n], nil
	case "col_limit":
		if f.N < 0 {
			return nil, errInvalid{"negative count"}
		}
		if env.dupTS && hasDupTS(L) {
			env.ambiguous = "order-sensitive filter after an interleave that produced equal-timestamp duplicates with different payload"
		}
		var out []MCell
		cnt := 0
		for i, c := range L {
			if i == 0 || L[i-1].Fam != c.Fam || L[i-1].Qual != c.Qual {
				cnt = 0
			}
			if cnt < int(f.N) {
				out = append(out, c)
			}
			cnt++
		}
		return out, nil
	case "strip":
		out := make([]MCell, len(L))
		for i, c := range L {
			c.Val = ""
			c.Labels = nil
			out[i] = c
		}
		if len(out) == 0 {
			return nil, nil
		}
		return out, nil
	case "label":
		out := make([]MCell, len(L))
		for i, c := range L {
			c.Labels = []string{string(f.S)}
			out[i] = c
		}
		if len(out) == 0 {
			return nil, nil
		}
		return out, nil
	case "chain":
		if len(f.Subs) < 2 {
			return nil, errInvalid{"chain needs at least two filters"}
		}
		cur := L
		for _, s := range f.Subs {
			var err error
			cur, err = m.evalFilter(s, key, cur, env)
			if err != nil {
				return nil, err
			}
			if len(cur) == 0 {
				return nil, nil
			}
		}
		return cur, nil
	case "interleave":
		if len(f.Subs) < 2 {
			return nil, errInvalid{"interleave needs at least two filters"}
		}
		var out []MCell
		for _, s := range f.Subs {
			r, err := m.evalFilter(s, key, L, env)
			if err != nil {
				return nil, err
			}
			out = append(out, r...)
		}
		// The implementation presents the families of an interleave in order of first appearance
		// across branches; the data model leaves family order open. Keep the order of first
		// appearance (it only matters to order-sensitive filters that follow).
		idx := map[string]int{}
		for _, c := range out {
			if _, ok := idx[c.Fam]; !ok {
				idx[c.Fam] = len(idx)
			}
		}
		sortCells(out, idx)
		if hasDupTS(out) {
			env.dupTS = true
		}
		if multiFam(out) {
			// a later row-level order-sensitive filter would depend on an unspecified family order
			env.famIdx = nil
		}
		return out, nil
	case "cond":
		p, err := m.evalFilter(f.Pred, key, L, env)
		if err != nil {
			return nil, err
		}
		br := f.False
		if len(p) > 0 {
			br = f.True
		}
		if br == nil {
			return nil, nil
		}
		return m.evalFilter(br, key, L, env)
	case "sample":
		if f.P <= 0 || f.P >= 1 {
			return nil, errInvalid{"sample probability outside (0,1)"}
		}
		if env.coin() {
			return L, nil
		}
		return nil, nil
	}
	env.ambiguous = "filter kind " + f.Kind + " not in the documented set"
	return L, nil
}

func multiFam(L []MCell) bool {
	for i := 1; i < len(L); i++ {
		if L[i].Fam != L[0].Fam {
			return true
		}
	}
	return false
}

// ---- row sets ----------------------------------------------------------------------------------

func member(k []byte, o *Op) bool {
	if !o.HasRowSet || (len(o.Keys) == 0 && len(o.Ranges) == 0) {
		return true
	}
	for _, x := range o.Keys {
		if bytes.Equal(k, x) {
			return true
		}
	}
	for _, r := range o.Ranges {
		if inRange(k, r.SK, r.S, r.EK, r.E) {
			return true
		}
	}
	return false
}

// Hints lets the harness tell the model things the data model leaves open.
type Hints struct {
	// FamOrder returns the order in which the implementation presents the families of a row.
	FamOrder func(table, key string) []string
}

func (m *Model) sortedKeys(t *MTable) []string {
	ks := make([]string, 0, len(t.Rows))
	for k := range t.Rows {
		ks = append(ks, k)
	}
	sort.Strings(ks)
	return ks
}

func errResp(code, msg string) Resp { return Resp{Code: code, Msg: msg} }

// Apply executes one request on the model and returns the response the API prescribes.
// wall is the wall-clock time (ns) of the request, used only for GC quiescence.
func (m *Model) Apply(o *Op, h *Hints, wall int64) Resp {
	tbl := func() *MTable { return m.Tables[o.Table] }
	switch o.Kind {
	case "SetClock":
		m.Clock = o.Clock
		return Resp{Code: "OK"}
	case "CreateTable":
		name := o.Parent + "/tables/" + o.TableID
		if _, ok := m.Tables[name]; ok {
			return errResp("AlreadyExists", "table exists")
		}
		t := &MTable{Fams: map[string]*GC{}, Rows: map[string]MRow{}, LastRead: wall, LastWrite: wall, Dirty: true}
		for k, v := range o.Fams {
			t.Fams[k] = v
		}
		m.Tables[name] = t
		return Resp{Code: "OK", Fams: famsOf(t), HasFams: true}
	case "GetTable":
		t := tbl()
		if t == nil {
			return errResp("NotFound", "no table")
		}
		return Resp{Code: "OK", Fams: famsOf(t), HasFams: true}
	case "ListTables":
		var names []string
		for n := range m.Tables {
			if strings.HasPrefix(n, o.Parent+"/tables/") {
				names = append(names, n)
			}
		}
		sort.Strings(names)
		return Resp{Code: "OK", Tables: names}
	case "DeleteTable":
		if tbl() == nil {
			return errResp("NotFound", "no table")
		}
		delete(m.Tables, o.Table)
		return Resp{Code: "OK"}
	case "ModifyFamilies":
		t := tbl()
		if t == nil {
			return errResp("NotFound", "no table")
		}
		nf := map[string]*GC{}
		for k, v := range t.Fams {
			nf[k] = v
		}
		var dropped []string
		for _, mod := range o.Mods {
			switch mod.Op {
			case "create":
				if _, ok := nf[mod.ID]; ok {
					return errResp("ERR", "family exists")
				}
				nf[mod.ID] = mod.GC
			case "update":
				if _, ok := nf[mod.ID]; !ok {
					return errResp("ERR", "no such family")
				}
				nf[mod.ID] = mod.GC
			case "drop":
				if _, ok := nf[mod.ID]; !ok {
					return errResp("ERR", "no such family")
				}
				delete(nf, mod.ID)
				dropped = append(dropped, mod.ID)
			default:
				return Resp{Code: "OK", Ambiguous: "modification without an operation"}
			}
		}
		t.Fams = nf
		for _, d := range dropped {
			for key, r := range t.Rows {
				for k := range r {
					if k.Fam == d {
						delete(r, k)
					}
				}
				t.store(key, r)
			}
		}
		return Resp{Code: "OK", Fams: famsOf(t), HasFams: true}
	case "DropRowRange":
		t := tbl()
		if t == nil {
			return errResp("NotFound", "no table")
		}
		if o.All {
			t.Rows = map[string]MRow{}
			return Resp{Code: "OK"}
		}
		if o.AllFalse {
			// neither a prefix nor "all": nothing may be dropped; whether that is said with an error is left open
			return Resp{Code: "ANY"}
		}
		for k := range t.Rows {
			if strings.HasPrefix(k, string(o.Prefix)) {
				delete(t.Rows, k)
			}
		}
		return Resp{Code: "OK"}
	case "Shutdown":
		return Resp{Code: "OK"}
	case "GenToken":
		if tbl() == nil {
			return errResp("NotFound", "no table")
		}
		return Resp{Code: "OK", Token: "TokenFor-" + o.Table}
	case "CheckConsistency":
		if tbl() == nil {
			return errResp("NotFound", "no table")
		}
		if o.Token != "TokenFor-"+o.Table {
			return errResp("ERR", "bad token")
		}
		return Resp{Code: "OK", Matched: boolp(true)}
	case "MutateRow":
		t := tbl()
		if t == nil {
			return errResp("NotFound", "no table")
		}
		t.LastWrite, t.Dirty = wall, true
		r, err := m.applyMuts(t, t.Rows[string(o.Key)], o.Muts)
		if err != nil {
			return errResp("ERR", err.Error())
		}
		t.store(string(o.Key), r)
		return Resp{Code: "OK"}
	case "MutateRows":
		t := tbl()
		if t == nil {
			return errResp("NotFound", "no table")
		}
		t.LastWrite, t.Dirty = wall, true
		res := Resp{Code: "OK"}
		for _, e := range o.Entries {
			r, err := m.applyMuts(t, t.Rows[string(e.Key)], e.Muts)
			if err != nil {
				res.Entries = append(res.Entries, "ERR")
				continue
			}
			t.store(string(e.Key), r)
			res.Entries = append(res.Entries, "OK")
		}
		return res
	case "CheckAndMutate":
		t := tbl()
		if t == nil {
			return errResp("NotFound", "no table")
		}
		t.LastWrite, t.Dirty = wall, true
		row := t.Rows[string(o.Key)]
		matched := len(row) > 0
		if o.Pred != nil {
			env := &fenv{coins: o.Coins}
			cs := m.rowCells(o.Table, string(o.Key), row, h, env)
			out, err := m.evalFilter(o.Pred, string(o.Key), cs, env)
			if env.ambiguous != "" {
				return Resp{Ambiguous: env.ambiguous}
			}
			if err != nil {
				return errResp("ERR", err.Error())
			}
			if StaticInvalid(o.Pred) {
				return Resp{Ambiguous: "invalid predicate node not reached by lazy evaluation"}
			}
			matched = len(out) > 0
		}
		muts := o.FalseM
		if matched {
			muts = o.TrueM
		}
		r, err := m.applyMuts(t, row, muts)
		if err != nil {
			return errResp("ERR", err.Error())
		}
		t.store(string(o.Key), r)
		return Resp{Code: "OK", Matched: boolp(matched)}
	case "RMW":
		t := tbl()
		if t == nil {
			return errResp("NotFound", "no table")
		}
		t.LastWrite, t.Dirty = wall, true
		if len(o.Rules) == 0 {
			return Resp{Ambiguous: "empty rule list"}
		}
		r := t.Rows[string(o.Key)].clone()
		type colk struct{ f, q string }
		written := map[colk]CK{}
		var order []colk
		for _, ru := range o.Rules {
			if _, ok := t.Fams[ru.Fam]; !ok {
				return errResp("ERR", "unknown family")
			}
			if ru.Unset {
				return errResp("ERR", "rule without operation")
			}
			var newest *CK
			for k := range r {
				if k.Fam == ru.Fam && k.Qual == string(ru.Qual) {
					if newest == nil || k.TS > newest.TS {
						kk := k
						newest = &kk
					}
				}
			}
			ts := m.Clock - m.Clock%1000
			prev := ""
			if newest != nil {
				prev = r[*newest]
				if newest.TS > ts {
					ts = newest.TS
				}
			}
			var nv string
			if ru.IsInc {
				var v int64
				if newest != nil {
					if len(prev) != 8 {
						return errResp("ERR", "increment on a value that is not 8 bytes")
					}
					v = int64(binary.BigEndian.Uint64([]byte(prev)))
				}
				v += ru.Inc
				var b [8]byte
				binary.BigEndian.PutUint64(b[:], uint64(v))
				nv = string(b[:])
			} else {
				nv = prev + string(ru.Append)
			}
			k := CK{ru.Fam, string(ru.Qual), ts}
			r[k] = nv
			ck := colk{ru.Fam, string(ru.Qual)}
			if _, ok := written[ck]; !ok {
				order = append(order, ck)
			}
			written[ck] = k
		}
		t.store(string(o.Key), r)
		var cs []MCell
		idx := map[string]int{}
		for _, c := range order {
			k := written[c]
			if _, ok := idx[k.Fam]; !ok {
				idx[k.Fam] = len(idx)
			}
			cs = append(cs, MCell{Fam: k.Fam, Qual: k.Qual, TS: k.TS, Val: r[k]})
		}
		sortCells(cs, idx)
		return Resp{Code: "OK", Rows: []RowOut{ToRowOut(string(o.Key), cs)}}
	case "ReadRows":
		t := tbl()
		if t == nil {
			return errResp("NotFound", "no table")
		}
		t.LastRead = wall
		if o.HasRowSet {
			for _, rg := range o.Ranges {
				if rg.SK != 0 && rg.EK != 0 && len(rg.S) > 0 && len(rg.E) > 0 && bytes.Compare(rg.S, rg.E) > 0 {
					return errResp("InvalidArgument", "start key after end key")
				}
			}
		}
		res := Resp{Code: "OK"}
		env := &fenv{coins: o.Coins}
		cnt := int64(0)
		for _, key := range m.sortedKeys(t) {
			if !member([]byte(key), o) {
				continue
			}
			if o.Limit > 0 && cnt >= o.Limit {
				break
			}
			env.dupTS = false
			cs := m.rowCells(o.Table, key, t.Rows[key], h, env)
			out, err := m.evalFilter(o.Filter, key, cs, env)
			if env.ambiguous != "" {
				return Resp{Ambiguous: env.ambiguous}
			}
			if err != nil {
				return errResp("InvalidArgument", err.Error())
			}
			if len(out) == 0 {
				continue
			}
			res.Rows = append(res.Rows, ToRowOut(key, out))
			cnt++
		}
		if StaticInvalid(o.Filter) {
			return Resp{Ambiguous: "invalid filter node not reached by lazy evaluation"}
		}
		return res
	case "Advance":
		return Resp{Code: "OK"}
	case "GC":
		return Resp{Code: "OK"} // handled by GCPass (needs the wall clock policy); see check C16
	}
	return Resp{Ambiguous: "operation not modelled: " + o.Kind}
}

func (m *Model) rowCells(table, key string, r MRow, h *Hints, env *fenv) []MCell {
	var fo []string
	if h != nil && h.FamOrder != nil {
		fo = h.FamOrder(table, key)
		env.famIdx = map[string]int{}
	} else {
		env.famIdx = nil
	}
	return Cells(r, fo)
}

func boolp(b bool) *bool { return &b }

func famsOf(t *MTable) map[string]string {
	out := map[string]string{}
	for k, v := range t.Fams {
		out[k] = v.String()
	}
	return out
}

// Condemned reports whether the rule condemns the i-th newest cell (0-based) with timestamp ts
// of a column, at server time now (µs).
func Condemned(g *GC, i int, ts int64, now int64) bool {
	if g == nil {
		return false
	}
	switch g.Kind {
	case "maxver":
		return i >= int(g.N)
	case "maxage":
		cutoff := now - g.AgeSec*1_000_000 - int64(g.AgeNanos)/1000
		return ts < cutoff
	case "union":
		for _, s := range g.Subs {
			if Condemned(s, i, ts, now) {
				return true
			}
		}
	}
	return false // intersection / unknown: unsupported -> untouched
}

// GCTable applies one garbage-collection pass to a table of the model.
func (m *Model) GCTable(t *MTable) {
	for key, r := range t.Rows {
		type colk struct{ f, q string }
		cols := map[colk][]int64{}
		for k := range r {
			cols[colk{k.Fam, k.Qual}] = append(cols[colk{k.Fam, k.Qual}], k.TS)
		}
		for c, tss := range cols {
			g := t.Fams[c.f]
			if g == nil {
				continue
			}
			sort.Slice(tss, func(i, j int) bool { return tss[i] > tss[j] })
			for i, ts := range tss {
				if Condemned(g, i, ts, m.Clock) {
					delete(r, CK{c.f, c.q, ts})
				}
			}
		}
		t.store(key, r)
	}
}

// StateString is a canonical rendering of the whole model state.
func (m *Model) StateString() string {
	var names []string
	for n := range m.Tables {
		names = append(names, n)
	}
	sort.Strings(names)
	var sb strings.Builder
	fmt.Fprintf(&sb, "clock=%d;", m.Clock)
	for _, n := range names {
		t := m.Tables[n]
		fmt.Fprintf(&sb, "T %s {%s}\n", n, famsString(famsOf(t)))
		for _, k := range m.sortedKeys(t) {
			sb.WriteString(RowsString([]RowOut{ToRowOut(k, Cells(t.Rows[k], nil))}))
			sb.WriteByte('\n')
		}
	}
	return sb.String()
}

// TableRows renders a table's rows the way a full unfiltered read must return them.
func (m *Model) TableRows(name string) []RowOut {
	t := m.Tables[name]
	if t == nil {
		return nil
	}
	var out []RowOut
	for _, k := range m.sortedKeys(t) {
		out = append(out, ToRowOut(k, Cells(t.Rows[k], nil)))
	}
	return out
}

func (m *Model) Clone() *Model {
	n := &Model{Tables: map[string]*MTable{}, Clock: m.Clock, Defects: m.Defects}
	for name, t := range m.Tables {
		nt := &MTable{Fams: map[string]*GC{}, Rows: map[string]MRow{}, LastRead: t.LastRead, LastWrite: t.LastWrite, Dirty: t.Dirty}
		for k, v := range t.Fams {
			nt.Fams[k] = v
		}
		for k, r := range t.Rows {
			nt.Rows[k] = r.clone()
		}
		n.Tables[name] = nt
	}
	return n
}
