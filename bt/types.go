// Package bt holds the Bigtable side of the verification machinery: a JSON-serialisable request
// vocabulary (Op), a deliberately naive reference model written from the API documentation
// (model.go), and a wire-fidelity in-process driver for the real implementation (driver.go).
package bt

import (
	"fmt"
	"sort"
	"strings"
)

const MaxTS = int64(9223372036854775807) - int64(9223372036854775807)%1000

type GC struct {
	Kind     string `json:"k"` // "maxver" | "maxage" | "union" | "inter"
	N        int32  `json:"n,omitempty"`
	AgeSec   int64  `json:"s,omitempty"`
	AgeNanos int32  `json:"ns,omitempty"`
	Subs     []*GC  `json:"subs,omitempty"`
}

func (g *GC) String() string {
	if g == nil {
		return "-"
	}
	switch g.Kind {
	case "maxver":
		return fmt.Sprintf("maxver(%d)", g.N)
	case "maxage":
		return fmt.Sprintf("maxage(%ds%dns)", g.AgeSec, g.AgeNanos)
	}
	var ss []string
	for _, s := range g.Subs {
		ss = append(ss, s.String())
	}
	return g.Kind + "(" + strings.Join(ss, ",") + ")"
}

type Mut struct {
	Kind     string `json:"k"` // "set" | "delcol" | "delfam" | "delrow" | "none"
	Fam      string `json:"f,omitempty"`
	Qual     []byte `json:"q,omitempty"`
	TS       int64  `json:"ts,omitempty"`
	Val      []byte `json:"v,omitempty"`
	HasRange bool   `json:"r,omitempty"`
	T0       int64  `json:"t0,omitempty"`
	T1       int64  `json:"t1,omitempty"`
}

func (m Mut) String() string {
	switch m.Kind {
	case "set":
		return fmt.Sprintf("set(%s:%q@%d=%q)", m.Fam, m.Qual, m.TS, m.Val)
	case "delcol":
		if m.HasRange {
			return fmt.Sprintf("delcol(%s:%q[%d,%d))", m.Fam, m.Qual, m.T0, m.T1)
		}
		return fmt.Sprintf("delcol(%s:%q)", m.Fam, m.Qual)
	case "delfam":
		return fmt.Sprintf("delfam(%s)", m.Fam)
	case "delrow":
		return "delrow"
	}
	return "unset-mutation"
}

type Entry struct {
	Key  []byte `json:"key"`
	Muts []Mut  `json:"muts"`
}

type Rule struct {
	Fam    string `json:"f"`
	Qual   []byte `json:"q"`
	IsInc  bool   `json:"inc,omitempty"`
	Inc    int64  `json:"n,omitempty"`
	Append []byte `json:"a,omitempty"`
	Unset  bool   `json:"unset,omitempty"`
}

// Range: bound kinds 0 = unset, 1 = closed, 2 = open.
type Range struct {
	SK int    `json:"sk"`
	S  []byte `json:"s,omitempty"`
	EK int    `json:"ek"`
	E  []byte `json:"e,omitempty"`
}

func (r Range) String() string {
	l, rr := "(-inf", "+inf)"
	if r.SK == 1 {
		l = fmt.Sprintf("[%q", r.S)
	} else if r.SK == 2 {
		l = fmt.Sprintf("(%q", r.S)
	}
	if r.EK == 1 {
		rr = fmt.Sprintf("%q]", r.E)
	} else if r.EK == 2 {
		rr = fmt.Sprintf("%q)", r.E)
	}
	return l + "," + rr
}

type Filter struct {
	Kind  string    `json:"k"`
	B     bool      `json:"b,omitempty"`
	S     []byte    `json:"s,omitempty"` // regex / label
	N     int32     `json:"n,omitempty"`
	P     float64   `json:"p,omitempty"`
	Fam   string    `json:"f,omitempty"`
	SK    int       `json:"sk,omitempty"`
	Start []byte    `json:"st,omitempty"`
	EK    int       `json:"ek,omitempty"`
	End   []byte    `json:"en,omitempty"`
	T0    int64     `json:"t0,omitempty"`
	T1    int64     `json:"t1,omitempty"`
	Subs  []*Filter `json:"subs,omitempty"`
	Pred  *Filter   `json:"pred,omitempty"`
	True  *Filter   `json:"true,omitempty"`
	False *Filter   `json:"false,omitempty"`
}

func (f *Filter) String() string {
	if f == nil {
		return "nil"
	}
	switch f.Kind {
	case "pass", "block":
		return fmt.Sprintf("%s(%v)", f.Kind, f.B)
	case "key_re", "fam_re", "qual_re", "val_re", "label":
		return fmt.Sprintf("%s(%q)", f.Kind, f.S)
	case "row_limit", "row_offset", "col_limit":
		return fmt.Sprintf("%s(%d)", f.Kind, f.N)
	case "sample":
		return fmt.Sprintf("sample(%v)", f.P)
	case "strip":
		return "strip"
	case "col_range":
		return fmt.Sprintf("col_range(%s,%s)", f.Fam, Range{f.SK, f.Start, f.EK, f.End})
	case "val_range":
		return fmt.Sprintf("val_range(%s)", Range{f.SK, f.Start, f.EK, f.End})
	case "ts_range":
		return fmt.Sprintf("ts_range[%d,%d)", f.T0, f.T1)
	case "chain", "interleave":
		var ss []string
		for _, s := range f.Subs {
			ss = append(ss, s.String())
		}
		return f.Kind + "(" + strings.Join(ss, ", ") + ")"
	case "cond":
		return fmt.Sprintf("cond(%s ? %s : %s)", f.Pred, f.True, f.False)
	}
	return f.Kind
}

type Mod struct {
	ID string `json:"id"`
	Op string `json:"op"` // "create" | "update" | "drop" | "none"
	GC *GC    `json:"gc,omitempty"`
}

type Op struct {
	Kind    string         `json:"op"`
	Table   string         `json:"t,omitempty"` // fully qualified name
	Parent  string         `json:"parent,omitempty"`
	TableID string         `json:"tid,omitempty"`
	Fams    map[string]*GC `json:"fams,omitempty"`
	NoTable bool           `json:"notable,omitempty"` // CreateTable with a nil Table message
	Mods    []Mod          `json:"mods,omitempty"`
	Prefix  []byte         `json:"prefix,omitempty"`
	All     bool           `json:"all,omitempty"`
	// AllFalse: DropRowRange whose target is delete_all_data_from_table with the value FALSE (set, but not asking
	// for anything): invalid, nothing may be dropped
	AllFalse bool    `json:"all_false,omitempty"`
	Key      []byte  `json:"key,omitempty"`
	Muts     []Mut   `json:"muts,omitempty"`
	Entries  []Entry `json:"entries,omitempty"`
	Pred     *Filter `json:"pred,omitempty"`
	TrueM    []Mut   `json:"truem,omitempty"`
	FalseM   []Mut   `json:"falsem,omitempty"`
	Rules    []Rule  `json:"rules,omitempty"`
	// ReadRows
	HasRowSet bool     `json:"rowset,omitempty"`
	Keys      [][]byte `json:"keys,omitempty"`
	Ranges    []Range  `json:"ranges,omitempty"`
	Filter    *Filter  `json:"filter,omitempty"`
	Limit     int64    `json:"limit,omitempty"`
	// environment
	Clock int64   `json:"clock,omitempty"` // SetClock (µs)
	Coins []bool  `json:"coins,omitempty"` // answers of the random seam, in call order (true = "selected")
	Token string  `json:"token,omitempty"`
	Adv   int64   `json:"adv,omitempty"` // GC: advance the wall clock by this many ns before the pass
	X     float64 `json:"x,omitempty"`
}

func (o Op) String() string {
	switch o.Kind {
	case "MutateRow":
		return fmt.Sprintf("MutateRow(%s,%q,%v)", short(o.Table), o.Key, o.Muts)
	case "MutateRows":
		var ss []string
		for _, e := range o.Entries {
			ss = append(ss, fmt.Sprintf("%q:%v", e.Key, e.Muts))
		}
		return fmt.Sprintf("MutateRows(%s,[%s])", short(o.Table), strings.Join(ss, "; "))
	case "CheckAndMutate":
		return fmt.Sprintf("CheckAndMutate(%s,%q,pred=%s,true=%v,false=%v)", short(o.Table), o.Key, o.Pred, o.TrueM, o.FalseM)
	case "RMW":
		var ss []string
		for _, r := range o.Rules {
			if r.Unset {
				ss = append(ss, fmt.Sprintf("%s:%q unset", r.Fam, r.Qual))
			} else if r.IsInc {
				ss = append(ss, fmt.Sprintf("%s:%q+=%d", r.Fam, r.Qual, r.Inc))
			} else {
				ss = append(ss, fmt.Sprintf("%s:%q++%q", r.Fam, r.Qual, r.Append))
			}
		}
		return fmt.Sprintf("RMW(%s,%q,[%s])", short(o.Table), o.Key, strings.Join(ss, "; "))
	case "ReadRows":
		s := fmt.Sprintf("ReadRows(%s", short(o.Table))
		if o.HasRowSet {
			s += fmt.Sprintf(",keys=%q,ranges=%v", o.Keys, o.Ranges)
		}
		if o.Filter != nil {
			s += ",filter=" + o.Filter.String()
		}
		if o.Limit != 0 {
			s += fmt.Sprintf(",limit=%d", o.Limit)
		}
		if len(o.Coins) > 0 {
			s += fmt.Sprintf(",coins=%v", o.Coins)
		}
		return s + ")"
	case "CreateTable":
		var fs []string
		for k, v := range o.Fams {
			fs = append(fs, k+":"+v.String())
		}
		sort.Strings(fs)
		return fmt.Sprintf("CreateTable(%s/%s,%v)", o.Parent, o.TableID, fs)
	case "ModifyFamilies":
		var ss []string
		for _, m := range o.Mods {
			ss = append(ss, fmt.Sprintf("%s %s %s", m.Op, m.ID, m.GC))
		}
		return fmt.Sprintf("ModifyFamilies(%s,[%s])", short(o.Table), strings.Join(ss, "; "))
	case "DropRowRange":
		if o.All {
			return fmt.Sprintf("DropRowRange(%s,all)", short(o.Table))
		}
		if o.AllFalse {
			return fmt.Sprintf("DropRowRange(%s,delete_all=false)", short(o.Table))
		}
		return fmt.Sprintf("DropRowRange(%s,prefix=%q)", short(o.Table), o.Prefix)
	case "Shutdown":
		return "Shutdown()"
	case "SetClock":
		return fmt.Sprintf("SetClock(%d)", o.Clock)
	case "GC":
		return fmt.Sprintf("GC(adv=%dns)", o.Adv)
	case "Advance":
		return fmt.Sprintf("AdvanceWallClock(%dns)", o.Adv)
	case "SampleRowKeys":
		return fmt.Sprintf("SampleRowKeys(%s,coins=%v)", short(o.Table), o.Coins)
	case "ListTables":
		return fmt.Sprintf("ListTables(%s)", o.Parent)
	}
	return fmt.Sprintf("%s(%s)", o.Kind, short(o.Table))
}

func short(t string) string {
	if i := strings.LastIndex(t, "/tables/"); i >= 0 {
		return t[strings.LastIndex(t[:i], "/")+1:i] + "/" + t[i+8:]
	}
	return t
}

func OpsString(ops []Op) string {
	var ss []string
	for _, o := range ops {
		ss = append(ss, o.String())
	}
	return strings.Join(ss, " ; ")
}

// ---- responses ----------------------------------------------------------------------------

type CellOut struct {
	TS     int64    `json:"ts"`
	Val    string   `json:"v"`
	Labels []string `json:"l,omitempty"`
}

type ColOut struct {
	Qual  string    `json:"q"`
	Cells []CellOut `json:"c"`
}

type FamOut struct {
	Name string   `json:"f"`
	Cols []ColOut `json:"cols"`
}

type RowOut struct {
	Key  string   `json:"key"`
	Fams []FamOut `json:"fams"`
}

func (r RowOut) NCells() int {
	n := 0
	for _, f := range r.Fams {
		for _, c := range f.Cols {
			n += len(c.Cells)
		}
	}
	return n
}

type SampleOut struct {
	Key    string `json:"key"`
	Offset int64  `json:"off"`
}

type Resp struct {
	Code      string            `json:"code"` // "OK", a gRPC code name; in model answers also "ERR" = any non-OK
	Msg       string            `json:"msg,omitempty"`
	Rows      []RowOut          `json:"rows,omitempty"`
	Entries   []string          `json:"entries,omitempty"`
	Matched   *bool             `json:"matched,omitempty"`
	Tables    []string          `json:"tables,omitempty"`
	Fams      map[string]string `json:"fams,omitempty"`
	HasFams   bool              `json:"hasfams,omitempty"`
	Samples   []SampleOut       `json:"samples,omitempty"`
	Token     string            `json:"token,omitempty"`
	Panic     string            `json:"panic,omitempty"`
	Malformed string            `json:"malformed,omitempty"` // chunk-stream well-formedness violation
	Messages  int               `json:"messages,omitempty"`  // number of stream messages
	// model only:
	Ambiguous string `json:"ambiguous,omitempty"` // the documented semantics do not fix the answer
	AnyRows   bool   `json:"anyrows,omitempty"`
}

// RowsString renders rows with families sorted by name (the order of families inside a row is
// not specified by the data model); everything else positionally.
func RowsString(rows []RowOut) string {
	var sb strings.Builder
	for _, r := range rows {
		fmt.Fprintf(&sb, "%q{", r.Key)
		fs := append([]FamOut(nil), r.Fams...)
		sort.SliceStable(fs, func(i, j int) bool { return fs[i].Name < fs[j].Name })
		for _, f := range fs {
			fmt.Fprintf(&sb, "%s[", f.Name)
			for _, c := range f.Cols {
				fmt.Fprintf(&sb, "%q(", c.Qual)
				for _, ce := range canonRuns(c.Cells) {
					fmt.Fprintf(&sb, "%d=%q", ce.TS, ce.Val)
					if len(ce.Labels) > 0 {
						fmt.Fprintf(&sb, "%v", ce.Labels)
					}
					sb.WriteByte(' ')
				}
				sb.WriteByte(')')
			}
			sb.WriteByte(']')
		}
		sb.WriteString("} ")
	}
	return sb.String()
}

func famsString(m map[string]string) string {
	var ks []string
	for k, v := range m {
		ks = append(ks, k+"="+v)
	}
	sort.Strings(ks)
	return strings.Join(ks, ",")
}

// Compare returns "" when the implementation's response is what the model requires.
func Compare(got, want Resp) string {
	if got.Panic != "" {
		return "panic: " + got.Panic
	}
	if got.Malformed != "" {
		return "malformed chunk stream: " + got.Malformed
	}
	if want.Ambiguous != "" {
		return ""
	}
	switch want.Code {
	case "ANY":
		return "" // the statements leave the answer open; what the request does to the state is still compared
	case "ERR":
		if got.Code == "OK" {
			return fmt.Sprintf("status: got OK, want an error (%s)", want.Msg)
		}
		return ""
	case "OK":
		if got.Code != "OK" {
			return fmt.Sprintf("status: got %s (%s), want OK", got.Code, got.Msg)
		}
	default:
		if got.Code != want.Code {
			return fmt.Sprintf("status: got %s (%s), want %s (%s)", got.Code, got.Msg, want.Code, want.Msg)
		}
		return ""
	}
	if !want.AnyRows {
		if g, w := RowsString(got.Rows), RowsString(want.Rows); g != w {
			return fmt.Sprintf("rows:\n   got  %s\n   want %s", g, w)
		}
	}
	if g, w := strings.Join(got.Entries, ","), strings.Join(want.Entries, ","); g != w {
		// per-entry: "ERR" in want matches any non-OK
		if len(got.Entries) != len(want.Entries) {
			return fmt.Sprintf("entries: got %s want %s", g, w)
		}
		for i := range want.Entries {
			if want.Entries[i] == "ERR" && got.Entries[i] != "OK" {
				continue
			}
			if want.Entries[i] != got.Entries[i] {
				return fmt.Sprintf("entries: got %s want %s", g, w)
			}
		}
	}
	if (got.Matched == nil) != (want.Matched == nil) || (got.Matched != nil && *got.Matched != *want.Matched) {
		return fmt.Sprintf("predicate_matched: got %v want %v", pb(got.Matched), pb(want.Matched))
	}
	if g, w := strings.Join(got.Tables, ","), strings.Join(want.Tables, ","); g != w {
		return fmt.Sprintf("tables: got %s want %s", g, w)
	}
	if want.HasFams {
		if g, w := famsString(got.Fams), famsString(want.Fams); g != w {
			return fmt.Sprintf("families: got {%s} want {%s}", g, w)
		}
	}
	if got.Token != want.Token {
		return fmt.Sprintf("token: got %q want %q", got.Token, want.Token)
	}
	return ""
}

func pb(b *bool) string {
	if b == nil {
		return "nil"
	}
	return fmt.Sprint(*b)
}

// canonRuns orders cells that carry the SAME timestamp (possible only in interleave output,
// where the documented semantics keep duplicates but do not order them) by payload; the
// relative order of different timestamps is left exactly as returned.
func canonRuns(cs []CellOut) []CellOut {
	out := append([]CellOut(nil), cs...)
	for i := 0; i < len(out); {
		j := i + 1
		for j < len(out) && out[j].TS == out[i].TS {
			j++
		}
		if j-i > 1 {
			run := out[i:j]
			sort.SliceStable(run, func(a, b int) bool {
				if run[a].Val != run[b].Val {
					return run[a].Val < run[b].Val
				}
				return strings.Join(run[a].Labels, ",") < strings.Join(run[b].Labels, ",")
			})
		}
		i = j
	}
	return out
}
