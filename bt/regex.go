package bt

import "errors"

// A tiny backtracking matcher for the regex subset used by the alphabets (literal bytes, '.',
// '\C', escapes, grouping, alternation, '*', '+', '?'), matched against the WHOLE field bytewise.
// It exists so that the oracle does not share the regex engine with the implementation.

type reNode struct {
	kind byte // 'l' literal, '.' any-but-newline, 'C' any byte, 'c' concat, '|' alt, '*' '+' '?'
	b    byte
	subs []*reNode
}

type reProg struct{ root *reNode }

var errBadRE = errors.New("bad regex")

type reParser struct {
	s []byte
	i int
}

func compileRE(pat []byte) (*reProg, error) {
	p := &reParser{s: pat}
	n, err := p.alt()
	if err != nil {
		return nil, err
	}
	if p.i != len(p.s) {
		return nil, errBadRE
	}
	return &reProg{n}, nil
}

func (p *reParser) alt() (*reNode, error) {
	var alts []*reNode
	for {
		c, err := p.concat()
		if err != nil {
			return nil, err
		}
		alts = append(alts, c)
		if p.i < len(p.s) && p.s[p.i] == '|' {
			p.i++
			continue
		}
		break
	}
	if len(alts) == 1 {
		return alts[0], nil
	}
	return &reNode{kind: '|', subs: alts}, nil
}

func (p *reParser) concat() (*reNode, error) {
	n := &reNode{kind: 'c'}
	for p.i < len(p.s) && p.s[p.i] != '|' && p.s[p.i] != ')' {
		a, err := p.atom()
		if err != nil {
			return nil, err
		}
		for p.i < len(p.s) && (p.s[p.i] == '*' || p.s[p.i] == '+' || p.s[p.i] == '?') {
			a = &reNode{kind: p.s[p.i], subs: []*reNode{a}}
			p.i++
		}
		n.subs = append(n.subs, a)
	}
	return n, nil
}

func (p *reParser) atom() (*reNode, error) {
	c := p.s[p.i]
	switch c {
	case '(':
		p.i++
		n, err := p.alt()
		if err != nil {
			return nil, err
		}
		if p.i >= len(p.s) || p.s[p.i] != ')' {
			return nil, errBadRE
		}
		p.i++
		return n, nil
	case '*', '+', '?':
		return nil, errBadRE
	case '[', ']', '{', '}', '^', '$':
		return nil, errBadRE // outside the subset: alphabets never use them un-escaped
	case '.':
		p.i++
		return &reNode{kind: '.'}, nil
	case '\\':
		if p.i+1 >= len(p.s) {
			return nil, errBadRE
		}
		e := p.s[p.i+1]
		p.i += 2
		if e == 'C' {
			return &reNode{kind: 'C'}, nil
		}
		return &reNode{kind: 'l', b: e}, nil
	}
	p.i++
	return &reNode{kind: 'l', b: c}, nil
}

func (r *reProg) match(s []byte) bool {
	return reMatch(r.root, s, 0, func(i int) bool { return i == len(s) })
}

func reMatch(n *reNode, s []byte, i int, k func(int) bool) bool {
	switch n.kind {
	case 'l':
		return i < len(s) && s[i] == n.b && k(i+1)
	case '.':
		return i < len(s) && s[i] != '\n' && k(i+1)
	case 'C':
		return i < len(s) && k(i+1)
	case 'c':
		return reSeq(n.subs, s, i, k)
	case '|':
		for _, a := range n.subs {
			if reMatch(a, s, i, k) {
				return true
			}
		}
		return false
	case '?':
		return reMatch(n.subs[0], s, i, k) || k(i)
	case '*':
		return reStar(n.subs[0], s, i, k)
	case '+':
		return reMatch(n.subs[0], s, i, func(j int) bool { return j > i && reStar(n.subs[0], s, j, k) || j == i && k(j) })
	}
	return false
}

func reSeq(ns []*reNode, s []byte, i int, k func(int) bool) bool {
	if len(ns) == 0 {
		return k(i)
	}
	return reMatch(ns[0], s, i, func(j int) bool { return reSeq(ns[1:], s, j, k) })
}

func reStar(n *reNode, s []byte, i int, k func(int) bool) bool {
	if k(i) {
		return true
	}
	return reMatch(n, s, i, func(j int) bool { return j > i && reStar(n, s, j, k) })
}
