// Package vgo is what a rewritten `go` statement calls: inside a controlled execution the new
// goroutine becomes a controlled thread (its steps are interleaved by the explorer like those of
// every other thread); otherwise it is a plain goroutine.
package vgo

import "verif/sched"

//go:norace
func Go(fn func()) {
	if t := sched.Cur(); t != nil {
		t.Spawn(fn)
		t.Point("go")
		return
	}
	go fn()
}
