// Package vtime is the clock seam: time.Now/After/Since in instrumented code come here.
package vtime

import "time"

var (
	virtual bool
	cur     int64 // ns
	step    int64
	// AfterFn, when set, decides what time.After returns.
	AfterFn func(d time.Duration) <-chan time.Time
)

// SetVirtual switches to a virtual clock starting at start (ns) that advances by step ns on
// every Now() call (strictly increasing, never frozen, never backwards).
//
//go:norace
func SetVirtual(start, stp int64) { virtual, cur, step = true, start, stp }

//go:norace
func SetReal() { virtual = false; AfterFn = nil }

// SetAfterFn installs (or, with nil, removes) the time.After seam. Like the other accessors of the seam it is not
// instrumented for the race detector: the harness sets it from the threads of consecutive executions, and a thread
// abandoned by an execution that ended in a deadlock is never joined.
//
//go:norace
func SetAfterFn(f func(d time.Duration) <-chan time.Time) { AfterFn = f }

// Advance moves the virtual clock forward.
//
//go:norace
func Advance(d time.Duration) { cur += int64(d) }

//go:norace
func Cur() int64 { return cur }

//go:norace
func Now() time.Time {
	if !virtual {
		return time.Now()
	}
	cur += step
	return time.Unix(0, cur)
}

//go:norace
func Since(t time.Time) time.Duration { return Now().Sub(t) }

//go:norace
func After(d time.Duration) <-chan time.Time {
	if f := AfterFn; f != nil {
		return f(d)
	}
	return time.After(d)
}
