// Package vrand is the math/rand seam. With no hook installed it is math/rand.
package vrand

import "math/rand"

// Hooks; nil means real randomness.
var (
	Int31nFn  func(n int32) int32
	IntnFn    func(n int) int
	Float64Fn func() float64
)

//go:norace
func Int31n(n int32) int32 {
	if f := Int31nFn; f != nil {
		return f(n)
	}
	return rand.Int31n(n)
}

//go:norace
func Intn(n int) int {
	if f := IntnFn; f != nil {
		return f(n)
	}
	return rand.Intn(n)
}

//go:norace
func Float64() float64 {
	if f := Float64Fn; f != nil {
		return f()
	}
	return rand.Float64()
}

func Int63() int64                    { return rand.Int63() }
func Int63n(n int64) int64            { return rand.Int63n(n) }
func Int() int                        { return rand.Int() }
func Int31() int32                    { return rand.Int31() }
func Uint32() uint32                  { return rand.Uint32() }
func Uint64() uint64                  { return rand.Uint64() }
func Perm(n int) []int                { return rand.Perm(n) }
func Seed(s int64)                    { rand.Seed(s) }
func Shuffle(n int, f func(i, j int)) { rand.Shuffle(n, f) }
func New(s rand.Source) *rand.Rand    { return rand.New(s) }
func NewSource(s int64) rand.Source   { return rand.NewSource(s) }

type (
	Rand   = rand.Rand
	Source = rand.Source
)
