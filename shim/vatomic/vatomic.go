// Package vatomic replaces "sync/atomic" in instrumented copies of the storage emulator packages: every
// atomic operation is a scheduling point (so that two atomic steps that are only atomic one by one - add then
// load, load then store - can be separated by the explorer) and is then performed by the real primitive.
package vatomic

import (
	"sync/atomic"

	"verif/sched"
)

//go:norace
func pt() {
	if t := sched.Cur(); t != nil {
		t.Point("atomic")
	}
}

func AddInt32(p *int32, d int32) int32     { pt(); return atomic.AddInt32(p, d) }
func AddInt64(p *int64, d int64) int64     { pt(); return atomic.AddInt64(p, d) }
func AddUint32(p *uint32, d uint32) uint32 { pt(); return atomic.AddUint32(p, d) }
func AddUint64(p *uint64, d uint64) uint64 { pt(); return atomic.AddUint64(p, d) }
func LoadInt32(p *int32) int32             { pt(); return atomic.LoadInt32(p) }
func LoadInt64(p *int64) int64             { pt(); return atomic.LoadInt64(p) }
func LoadUint32(p *uint32) uint32          { pt(); return atomic.LoadUint32(p) }
func LoadUint64(p *uint64) uint64          { pt(); return atomic.LoadUint64(p) }
func StoreInt32(p *int32, v int32)         { pt(); atomic.StoreInt32(p, v) }
func StoreInt64(p *int64, v int64)         { pt(); atomic.StoreInt64(p, v) }
func StoreUint32(p *uint32, v uint32)      { pt(); atomic.StoreUint32(p, v) }
func StoreUint64(p *uint64, v uint64)      { pt(); atomic.StoreUint64(p, v) }
func SwapInt32(p *int32, v int32) int32    { pt(); return atomic.SwapInt32(p, v) }
func SwapInt64(p *int64, v int64) int64    { pt(); return atomic.SwapInt64(p, v) }
func CompareAndSwapInt32(p *int32, o, n int32) bool {
	pt()
	return atomic.CompareAndSwapInt32(p, o, n)
}
func CompareAndSwapInt64(p *int64, o, n int64) bool {
	pt()
	return atomic.CompareAndSwapInt64(p, o, n)
}
func CompareAndSwapUint32(p *uint32, o, n uint32) bool {
	pt()
	return atomic.CompareAndSwapUint32(p, o, n)
}
func CompareAndSwapUint64(p *uint64, o, n uint64) bool {
	pt()
	return atomic.CompareAndSwapUint64(p, o, n)
}

type Int32 struct{ v atomic.Int32 }

func (x *Int32) Load() int32                    { pt(); return x.v.Load() }
func (x *Int32) Store(v int32)                  { pt(); x.v.Store(v) }
func (x *Int32) Add(d int32) int32              { pt(); return x.v.Add(d) }
func (x *Int32) Swap(v int32) int32             { pt(); return x.v.Swap(v) }
func (x *Int32) CompareAndSwap(o, n int32) bool { pt(); return x.v.CompareAndSwap(o, n) }

type Int64 struct{ v atomic.Int64 }

func (x *Int64) Load() int64                    { pt(); return x.v.Load() }
func (x *Int64) Store(v int64)                  { pt(); x.v.Store(v) }
func (x *Int64) Add(d int64) int64              { pt(); return x.v.Add(d) }
func (x *Int64) Swap(v int64) int64             { pt(); return x.v.Swap(v) }
func (x *Int64) CompareAndSwap(o, n int64) bool { pt(); return x.v.CompareAndSwap(o, n) }

type Uint32 struct{ v atomic.Uint32 }

func (x *Uint32) Load() uint32                    { pt(); return x.v.Load() }
func (x *Uint32) Store(v uint32)                  { pt(); x.v.Store(v) }
func (x *Uint32) Add(d uint32) uint32             { pt(); return x.v.Add(d) }
func (x *Uint32) Swap(v uint32) uint32            { pt(); return x.v.Swap(v) }
func (x *Uint32) CompareAndSwap(o, n uint32) bool { pt(); return x.v.CompareAndSwap(o, n) }

type Uint64 struct{ v atomic.Uint64 }

func (x *Uint64) Load() uint64                    { pt(); return x.v.Load() }
func (x *Uint64) Store(v uint64)                  { pt(); x.v.Store(v) }
func (x *Uint64) Add(d uint64) uint64             { pt(); return x.v.Add(d) }
func (x *Uint64) Swap(v uint64) uint64            { pt(); return x.v.Swap(v) }
func (x *Uint64) CompareAndSwap(o, n uint64) bool { pt(); return x.v.CompareAndSwap(o, n) }

type Bool struct{ v atomic.Bool }

func (x *Bool) Load() bool                    { pt(); return x.v.Load() }
func (x *Bool) Store(v bool)                  { pt(); x.v.Store(v) }
func (x *Bool) Swap(v bool) bool              { pt(); return x.v.Swap(v) }
func (x *Bool) CompareAndSwap(o, n bool) bool { pt(); return x.v.CompareAndSwap(o, n) }

type Value struct{ v atomic.Value }

func (x *Value) Load() any                    { pt(); return x.v.Load() }
func (x *Value) Store(v any)                  { pt(); x.v.Store(v) }
func (x *Value) Swap(v any) any               { pt(); return x.v.Swap(v) }
func (x *Value) CompareAndSwap(o, n any) bool { pt(); return x.v.CompareAndSwap(o, n) }

type Pointer[T any] struct{ v atomic.Pointer[T] }

func (x *Pointer[T]) Load() *T                    { pt(); return x.v.Load() }
func (x *Pointer[T]) Store(v *T)                  { pt(); x.v.Store(v) }
func (x *Pointer[T]) Swap(v *T) *T                { pt(); return x.v.Swap(v) }
func (x *Pointer[T]) CompareAndSwap(o, n *T) bool { pt(); return x.v.CompareAndSwap(o, n) }
