// Package vos is the file-system seam: every mutating os call in instrumented code passes
// through Hook first (a scheduling point under SCHED, a crash point under CRASH) and is
// reported again afterwards.
package vos

import (
	"io/fs"
	"os"
	"time"
)

// Hook is called before ("pre") and after ("post") each file-system call made by instrumented code.
var Hook func(phase, op, path string)

//go:norace
func pre(op, path string) {
	if h := Hook; h != nil {
		h("pre", op, path)
	}
}

//go:norace
func post(op, path string) {
	if h := Hook; h != nil {
		h("post", op, path)
	}
}

type (
	FileInfo     = os.FileInfo
	FileMode     = os.FileMode
	File         = os.File
	DirEntry     = os.DirEntry
	PathError    = os.PathError
	LinkError    = os.LinkError
	SyscallError = os.SyscallError
	Signal       = os.Signal
)

const (
	PathSeparator     = os.PathSeparator
	PathListSeparator = os.PathListSeparator
	O_RDONLY          = os.O_RDONLY
	O_WRONLY          = os.O_WRONLY
	O_RDWR            = os.O_RDWR
	O_APPEND          = os.O_APPEND
	O_CREATE          = os.O_CREATE
	O_EXCL            = os.O_EXCL
	O_SYNC            = os.O_SYNC
	O_TRUNC           = os.O_TRUNC
	SEEK_SET          = os.SEEK_SET
	SEEK_CUR          = os.SEEK_CUR
	SEEK_END          = os.SEEK_END
	ModePerm          = os.ModePerm
	ModeDir           = os.ModeDir
)

var (
	ErrNotExist   = os.ErrNotExist
	ErrExist      = os.ErrExist
	ErrPermission = os.ErrPermission
	ErrInvalid    = os.ErrInvalid
	ErrClosed     = os.ErrClosed
	Stdin         = os.Stdin
	Stdout        = os.Stdout
	Stderr        = os.Stderr
	Args          = os.Args
	Interrupt     = os.Interrupt
	Kill          = os.Kill
)

func IsNotExist(err error) bool         { return os.IsNotExist(err) }
func IsExist(err error) bool            { return os.IsExist(err) }
func IsPermission(err error) bool       { return os.IsPermission(err) }
func Getenv(k string) string            { return os.Getenv(k) }
func LookupEnv(k string) (string, bool) { return os.LookupEnv(k) }
func Setenv(k, v string) error          { return os.Setenv(k, v) }
func Exit(c int)                        { os.Exit(c) }
func Getpid() int                       { return os.Getpid() }
func TempDir() string                   { return os.TempDir() }
func Getwd() (string, error)            { return os.Getwd() }
func Hostname() (string, error)         { return os.Hostname() }
func SameFile(a, b FileInfo) bool       { return os.SameFile(a, b) }
func DirFS(d string) fs.FS              { return os.DirFS(d) }

func Stat(p string) (FileInfo, error) {
	pre("Stat", p)
	fi, err := os.Stat(p)
	post("Stat", p)
	return fi, err
}
func Lstat(p string) (FileInfo, error) { return os.Lstat(p) }
func ReadFile(p string) ([]byte, error) {
	pre("ReadFile", p)
	b, err := os.ReadFile(p)
	post("ReadFile", p)
	return b, err
}
func ReadDir(p string) ([]DirEntry, error) {
	pre("ReadDir", p)
	d, err := os.ReadDir(p)
	post("ReadDir", p)
	return d, err
}
func Open(p string) (*File, error) { return os.Open(p) }
func OpenFile(p string, flag int, perm FileMode) (*File, error) {
	op := "OpenFile"
	if flag&os.O_CREATE != 0 {
		op = "OpenFile+create" // brings a new name into existence (or truncates): a crash point of its own
	}
	pre(op, p)
	f, err := os.OpenFile(p, flag, perm)
	post(op, p)
	return f, err
}
func Create(p string) (*File, error) {
	pre("Create", p)
	f, err := os.Create(p)
	post("Create", p)
	return f, err
}
func CreateTemp(dir, pattern string) (*File, error) { return os.CreateTemp(dir, pattern) }
func MkdirTemp(dir, pattern string) (string, error) { return os.MkdirTemp(dir, pattern) }
func MkdirAll(p string, perm FileMode) error {
	pre("MkdirAll", p)
	err := os.MkdirAll(p, perm)
	post("MkdirAll", p)
	return err
}
func Mkdir(p string, perm FileMode) error {
	pre("Mkdir", p)
	err := os.Mkdir(p, perm)
	post("Mkdir", p)
	return err
}
func WriteFile(p string, data []byte, perm FileMode) error {
	pre("WriteFile", p)
	err := os.WriteFile(p, data, perm)
	post("WriteFile", p)
	return err
}
func Rename(a, b string) error {
	pre("Rename", b)
	err := os.Rename(a, b)
	post("Rename", b)
	return err
}
func Remove(p string) error {
	pre("Remove", p)
	err := os.Remove(p)
	post("Remove", p)
	return err
}

// RemoveAllFn, when set, replaces os.RemoveAll (the crash checker uses a step-wise variant
// that reports every single unlink as a crash point).
var RemoveAllFn func(p string) error

func RemoveAll(p string) error {
	pre("RemoveAll", p)
	var err error
	if f := RemoveAllFn; f != nil {
		err = f(p)
	} else {
		err = os.RemoveAll(p)
	}
	post("RemoveAll", p)
	return err
}
func Chtimes(p string, a, m time.Time) error {
	pre("Chtimes", p)
	err := os.Chtimes(p, a, m)
	post("Chtimes", p)
	return err
}
func Chmod(p string, m FileMode) error { return os.Chmod(p, m) }
func Truncate(p string, n int64) error {
	pre("Truncate", p)
	err := os.Truncate(p, n)
	post("Truncate", p)
	return err
}
func Symlink(a, b string) error { return os.Symlink(a, b) }
func Link(a, b string) error    { return os.Link(a, b) }
