// Package vchan is what a rewritten `select` calls: it decides WHICH case runs; the native
// channel operation of that case is then performed by the rewritten code itself.
package vchan

import (
	"reflect"
	"time"

	"verif/sched"
)

type Case = sched.SelCase

func Send(ch interface{}) Case { return Case{Send: true, Ch: reflect.ValueOf(ch)} }
func Recv(ch interface{}) Case { return Case{Send: false, Ch: reflect.ValueOf(ch)} }

// SeqBlock is called when a select without default would block and no controlled execution is
// active. The default polls (free-running goroutines such as a real server's GC loop).
var SeqBlock func()

func ready(c Case) bool {
	if !c.Ch.IsValid() || c.Ch.IsNil() {
		return false
	}
	if c.Send {
		return c.Ch.Len() < c.Ch.Cap()
	}
	if c.Ch.Len() > 0 {
		return true
	}
	v, _ := c.Ch.TryRecv()
	return v.IsValid()
}

// Select returns the index of the case to run, or -1 for the default case.
func Select(hasDefault bool, cases ...Case) int {
	if t := sched.Cur(); t != nil {
		return t.Select(hasDefault, cases, "select")
	}
	for {
		for i, c := range cases {
			if ready(c) {
				return i
			}
		}
		if hasDefault {
			return -1
		}
		if SeqBlock != nil {
			SeqBlock()
		} else {
			time.Sleep(200 * time.Microsecond)
		}
	}
}

// Wait parks the calling controlled thread until the (statement-level, blocking) channel operation
// can proceed; the native operation follows. Outside a controlled execution it does nothing.
func Wait(c Case) {
	if t := sched.Cur(); t != nil {
		t.Select(false, []Case{c}, "chan-op")
		return
	}
	// Outside a controlled execution the sequential checks run one request at a time: a channel operation that still
	// cannot proceed after the grace period (which only a free-running background goroutine of the emulator could
	// legitimately need) waits for something an EARLIER request failed to give back - e.g. a slot of a semaphore
	// channel. Blocking natively would hang the checker; it is reported like a leaked mutex (vsync.LeakGrace).
	if ready(c) {
		return
	}
	deadline := time.Now().Add(LeakGrace)
	for !ready(c) {
		if time.Now().After(deadline) {
			panic("verif: a channel operation cannot proceed although no other request is running: an earlier request did not give back what it took (the service is wedged)")
		}
		time.Sleep(200 * time.Microsecond)
	}
}

// LeakGrace: see Wait.
var LeakGrace = 8 * time.Second
