// Package vsync replaces "sync" in instrumented copies of the emulator packages.
// Mutex/RWMutex operations are scheduling points when a controlled execution is active and
// plain sync operations otherwise. The real mutex is still operated (it is uncontended by
// construction under the scheduler) so that the race detector sees the program's own
// happens-before edges.
package vsync

import (
	"sync"
	"time"

	"verif/sched"
)

// LeakGrace: outside a controlled execution the sequential checks run one request at a time, so a mutex
// that is still held when a request wants it was leaked by an earlier request (an early return that skipped
// the unlock). Waiting natively would hang the checker; after this grace period (which only a free-running
// background goroutine of the emulator could legitimately need) the wait is reported as a panic.
var LeakGrace = 8 * time.Second

func lockOrReport(try func() bool, what string) {
	if try() {
		return
	}
	deadline := time.Now().Add(LeakGrace)
	for !try() {
		if time.Now().After(deadline) {
			panic("verif: " + what + " is held although no other request is running: an earlier request left it locked (the service is wedged)")
		}
		time.Sleep(200 * time.Microsecond)
	}
}

type (
	Once      = sync.Once
	WaitGroup = sync.WaitGroup
	Map       = sync.Map
	Locker    = sync.Locker
	Cond      = sync.Cond
)

// Pool is a deterministic stand-in for sync.Pool: Get hands out the item that was Put last (one of the behaviours
// sync.Pool is allowed to show, and the one that exposes an item that is put back while somebody still uses it);
// the real pool's choice depends on the processor the goroutine runs on and on the garbage collector, i.e. on
// nondeterminism the explorer does not own. Get and Put are scheduling points.
type Pool struct {
	New   func() any
	mu    sync.Mutex
	items []any
}

func (p *Pool) Get() any {
	if t := sched.Cur(); t != nil {
		t.Point("Pool.Get")
	}
	p.mu.Lock()
	var x any
	if n := len(p.items); n > 0 {
		x, p.items = p.items[n-1], p.items[:n-1]
	}
	p.mu.Unlock()
	if x == nil && p.New != nil {
		x = p.New()
	}
	return x
}

func (p *Pool) Put(x any) {
	if x == nil {
		return
	}
	if t := sched.Cur(); t != nil {
		t.Point("Pool.Put")
	}
	p.mu.Lock()
	p.items = append(p.items, x)
	p.mu.Unlock()
}

func NewCond(l Locker) *Cond { return sync.NewCond(l) }

func OnceFunc(f func()) func() { return sync.OnceFunc(f) }

type Mutex struct {
	st sched.MState
	mu sync.Mutex
}

//go:norace
func (m *Mutex) Lock() {
	if t := sched.Cur(); t != nil {
		t.Lock(&m.st, "Mutex.Lock")
		m.mu.Lock()
		return
	}
	lockOrReport(m.mu.TryLock, "a sync.Mutex")
}

//go:norace
func (m *Mutex) TryLock() bool {
	if t := sched.Cur(); t != nil {
		t.Point("Mutex.TryLock")
		if m.st.W != 0 || m.st.R != 0 {
			return false
		}
		m.st.W = int32(t.ID) + 1
		m.mu.Lock()
		return true
	}
	return m.mu.TryLock()
}

//go:norace
func (m *Mutex) Unlock() {
	if t := sched.Cur(); t != nil {
		if m.st.W == 0 {
			panic("verif: sync: unlock of unlocked mutex")
		}
		m.mu.Unlock()
		t.Unlock(&m.st)
		return
	}
	m.mu.Unlock()
}

type RWMutex struct {
	st sched.MState
	mu sync.RWMutex
}

//go:norace
func (m *RWMutex) Lock() {
	if t := sched.Cur(); t != nil {
		t.WLock(&m.st, "RWMutex.Lock")
		m.mu.Lock()
		return
	}
	lockOrReport(m.mu.TryLock, "a sync.RWMutex (write lock wanted)")
}

//go:norace
func (m *RWMutex) Unlock() {
	if t := sched.Cur(); t != nil {
		if m.st.W == 0 {
			panic("verif: sync: Unlock of unlocked RWMutex")
		}
		m.mu.Unlock()
		t.Unlock(&m.st)
		return
	}
	m.mu.Unlock()
}

//go:norace
func (m *RWMutex) RLock() {
	if t := sched.Cur(); t != nil {
		t.RLock(&m.st, "RWMutex.RLock")
		m.mu.RLock()
		return
	}
	lockOrReport(m.mu.TryRLock, "a sync.RWMutex (read lock wanted)")
}

//go:norace
func (m *RWMutex) RUnlock() {
	if t := sched.Cur(); t != nil {
		if m.st.R <= 0 {
			panic("verif: sync: RUnlock of unlocked RWMutex")
		}
		m.mu.RUnlock()
		t.RUnlock(&m.st)
		return
	}
	m.mu.RUnlock()
}

//go:norace
func (m *RWMutex) TryLock() bool {
	if t := sched.Cur(); t != nil {
		t.Point("RWMutex.TryLock")
		if m.st.W != 0 || m.st.R != 0 {
			return false
		}
		m.st.W = int32(t.ID) + 1
		m.mu.Lock()
		return true
	}
	return m.mu.TryLock()
}

//go:norace
func (m *RWMutex) TryRLock() bool {
	if t := sched.Cur(); t != nil {
		t.Point("RWMutex.TryRLock")
		if m.st.W != 0 {
			return false
		}
		m.st.R++
		m.mu.RLock()
		return true
	}
	return m.mu.TryRLock()
}

func (m *RWMutex) RLocker() Locker { return (*rlocker)(m) }

type rlocker RWMutex

func (r *rlocker) Lock()   { (*RWMutex)(r).RLock() }
func (r *rlocker) Unlock() { (*RWMutex)(r).RUnlock() }
