#!/usr/bin/env python3
"""Writes MANIFEST.json from the table below (single source of truth for what is claimed)."""
import json, subprocess, os
ROOT = os.path.dirname(os.path.dirname(os.path.abspath(__file__)))
ALL = ["C%02d" % i for i in range(1, 21)]
CHECKS = {
 "C01": dict(engine="SEQ", technique="explicit-state BFS over request sequences on the real service, reference-model oracle",
   text="Bounded-exhaustive explicit-state model checking of the real bttest service: every sequence of single-mutation requests up to the depth bound (dedup on model state + raw stored rows), plus the full boundary catalogue of mutations and all ordered pairs of core mutations (MutateRow and MutateRows) from every shallow state; after every request the response and a complete unfiltered read are compared with an independent reference model of the Bigtable data model. Right level: the property quantifies over request programs and inputs; enumerating them on the implementation leaves no model-fidelity gap.",
   note="Trusted: reference model bt/model.go (naive maps), Go runtime, protobuf; family order inside a row is unspecified (compared as a set). Bounds (depth, alphabets, engines per tier) are reported in the evidence.",
   ref="§4 C01"),
}
def main():
    hooks_commits = subprocess.run(["git","-C","/repo","log","--format=%h","--grep=^verif hooks"],capture_output=True,text=True).stdout.split()
    m = {
      "version": 1,
      "setup_cmd": "bin/setup",
      "hooks": {
        "guard": "verif",
        "enable": "Go build tag: bin/check builds cmd/vcheck with `go build -tags verif -overlay <generated overlay.json>`; the overlay holds instrumented COPIES of the current /repo sources (sync->vsync, math/rand->vrand, os->vos, time.Now/After->vtime, select->vchan) produced by cmd/vinstr; /repo itself is never modified. The only files added to /repo are bigtable/bttest/verif_export.go and storage/gcsutil/verif_export.go (//go:build verif).",
        "baseline_off_cmd": "for m in bigtable storage; do (cd /repo/$m && GOFLAGS=-mod=mod go test -json -vet=off -count=1 -timeout 25m ./...); done",
        "source_commits": hooks_commits,
        "add_only": True,
      },
      "engines": [
        {"name":"SEQ","path":"checks/btworld.go, checks/*.go, bt/, gcs/","serves_properties":[],"kind_free_text":"bounded-exhaustive explicit-state search over operation sequences / input catalogues executed on the real implementation, reference-model oracle, sharded over worker processes"},
        {"name":"SCHED","path":"sched/, shim/","serves_properties":[],"kind_free_text":"stateless model checking of the real code under a cooperative scheduler: DFS over all interleavings at lock/channel/store/fs points with preemption bounding; optional race-detector mode with HB-free hand-off"},
        {"name":"CRASH","path":"checks/c08.go","serves_properties":[],"kind_free_text":"enumeration of every (program prefix x crash point) with a real SIGKILL of a worker process and recovery on the same directory"},
      ],
      "checks": [],
      "not_applicable": [],
      "notes": "All checks are `bin/check <id> <tier>`; they rebuild from /repo's current working tree on every call (binary cache keyed by the hash of all inputs is only an accelerator). Exit 0/1/2 = held / VIOLATION / infrastructure error. See DESIGN.md.",
    }
    for e in m["engines"]:
        e["serves_properties"] = [k for k,v in CHECKS.items() if v["engine"]==e["name"] or e["name"] in v.get("engines",[])]
    for cid in ALL:
        if cid in CHECKS:
            c = CHECKS[cid]
            m["checks"].append({
              "property_id": cid,
              "quick_cmd": "bin/check %s quick" % cid,
              "thorough_cmd": "bin/check %s thorough" % cid,
              "evidence_file": "/verif/evidence/%s.json" % cid,
              "replay_cmd_template": "bin/check %s replay {path}" % cid,
              "engine": c["engine"],
              "level_claimed": {"category": c.get("level","model_checking"), "text": c["text"], "design_ref": c["ref"]},
              "level_note": c["note"],
              "technique": c["technique"],
            })
        else:
            m["not_applicable"].append({"property_id": cid, "reason": "check not built yet in this session (planned, see DESIGN.md §4); not a limit of the technique"})
    json.dump(m, open(os.path.join(ROOT,"MANIFEST.json"),"w"), indent=1)
    print("MANIFEST.json: %d checks, %d not_applicable" % (len(m["checks"]), len(m["not_applicable"])))
main()
