#!/usr/bin/env python3
"""Writes MANIFEST.json from the table below (single source of truth for what is claimed)."""
import json, subprocess, os
ROOT = os.path.dirname(os.path.dirname(os.path.abspath(__file__)))
ALL = ["C%02d" % i for i in range(1, 21)]
CHECKS = {
 "C02": dict(engine="SEQ", technique="bounded-exhaustive enumeration of upload protocols x payloads x names x every chunking of a resumable upload on the real HTTP handler, reference-model oracle",
   text="Every combination of protocol, payload, declared MD5, gzip request body, object name and store, every composition of a resumable payload into chunks with status queries / re-sent / overlapping ranges at every position, and a BFS over upload/overwrite/delete sequences on neighbouring names in two buckets, executed through the emulator's own mux; after every step every object is fetched through the JSON, /download and public URL forms and metadata + listing are compared with the model.",
   note="Trusted: gcs/model.go. Content type is sent where the official clients send it. Bucket names avoid the API's own path markers.",
   ref="§4 C02"),
 "C04": dict(engine="SEQ", technique="complete truth-table enumeration (320 condition combinations x object states x operations x stores) on the real HTTP handler, reference-model oracle",
   text="The finite space of the four precondition parameters x object state x operation (all upload protocols incl. conditions captured at resumable initiation with the object changed in between, patch, delete, compose destination and per-source generation) x store is enumerated completely, then revisited from every history of a depth-3 BFS; status and the complete state of every object are compared with the model after each request.",
   note="Failure status may be 412 or (for a failing not-match condition) 304; patch/delete on an absent object may answer 404 or the precondition status.",
   ref="§4 C04"),
 "C06": dict(engine="SCHED", engines=["SCHED","SEQ"], technique="stateless model checking of the real service under a controlled scheduler (preemption-bounded DFS over all interleavings) with a porcupine linearizability oracle; plus exhaustive failure-atomicity enumeration",
   text="(a) 2-3 client threads issue single-row writes and reads on colliding rows against the real bttest service; every interleaving within the preemption bound at the registry mutex, table RWMutex, clock read, every storage-engine Rows call and stream Send is executed, and the recorded call/return history plus a final full read is checked for linearizability against the sequential reference model. (b) every mutation list of length <=3 with an invalid element at each position, through MutateRow, a MutateRows entry, both CheckAndMutateRow branches and RMW rule lists: the row must be unchanged.",
   note="Scheduling points are synchronisation operations and storage calls; code between two points runs atomically, which is sound for data-race-free code (race detector side condition in C20). MutateRows is judged per entry.",
   ref="§4 C06"),
 "C16": dict(engine="SCHED", engines=["SCHED","SEQ"], technique="bounded-exhaustive policy enumeration driving the real GC loop through clock/timer seams, plus stateless model checking of the pass against concurrent writers",
   text="(a) every rule tree of a catalogue x every subset of cell timestamps straddling the cut-off x pass timing (idle 1h: collect exactly; idle 1 min: must not run; repeated passes) x engines, executed through the real background loop iteration; (b) the real pass over 100 filler rows + target rows under a controlled scheduler with 1-2 writer threads, every interleaving within the preemption bound; each row's final content must be explained by its acknowledged writes plus one atomic collect step at any position or omitted; deadlock = violation.",
   note="A pass must collect after 1h idle when the table was written since the last pass, must not run within 4 minutes of a data request; in between not judged.",
   ref="§4 C16"),
 "C18": dict(engine="SCHED", technique="stateless model checking of a multi-message scan against concurrent writers under a controlled scheduler, per-row version oracle from the reference model",
   text="One ReadRows scan whose rows exceed 1024 cells (so it streams several messages and gives up the table lock at each Send) runs against 1-2 writer threads (SetCell, delete row, new rows before/between/after, read-modify-write, multi-row write); every interleaving within the preemption bound is executed on the leveldb engines, including scans over 230 rows (longer than the batching constants of the engines) with runs of rows around the 100th / 200th position deleted or rewritten in a lock gap, and a rejected multi-rule read-modify-write; the result must be OK, well-formed, strictly ascending, and every returned row must equal one state that row had during the scan; untouched rows exact.",
   note="leveldb engines only, as the property says. Row versions come from the reference model applied to the recorded write history.",
   ref="§4 C18"),
 "C19": dict(engine="SCHED", technique="stateless model checking of the real TransientLockMap at the granularity of its internal steps (map mutex, channel select with explorer-chosen ready case), every key assignment, cancellation and bad unlock",
   text="Every interleaving (unbounded for 2 workers, preemption-bounded for 3 workers x 2 keys x 2 rounds in every key assignment) of Lock/Unlock/Run workers, a canceller and a thread unlocking a key it does not hold; invariants on every state (<=1 holder per key, blocked implies held, visible refcount>=1) and at the end (no deadlock, refusal only after the context ended, bad unlock panics, map empty).",
   note="An Unlock by a non-holder while the key really is held releases it by contract: such executions are classified 'excused'.",
   ref="§4 C19"),
 "C07": dict(engine="SCHED", technique="stateless model checking of the real HTTP handlers under a controlled scheduler with a porcupine linearizability oracle over (status, generation, metageneration, MD5, metadata, body)",
   text="2-3 HTTP clients operate on one object (uploads by every protocol conditioned on non-existence / current generation, metageneration-conditioned patches, deletes, compose onto/from, copy onto/from, media and metadata GETs) against the real handlers for both stores; every interleaving within the preemption bound at the lock map's internal steps, the memory store's mutexes, every Store call and every file-system call of the file store is executed; the recorded history plus final reads must be linearizable against the sequential reference model.",
   note="Generations are adopted from the responses and must be fresh and increasing. Scheduling-point atomicity is sound for data-race-free code (C20 runs the race detector).",
   ref="§4 C07"),
 "C08": dict(engine="CRASH", level="fault_enumeration", technique="enumeration of every (request program x crash point) pair with a real SIGKILL of a child process and recovery on the same directory",
   text="Every request program up to the depth bound x every crash point of its last request (request boundaries; before and after every file-system call made by metadata persistence, table create and table clear; thorough: every single unlink of a directory removal), executed by a child process on LeveldbDiskStorage that is killed with SIGKILL at the point (the child serves through the public constructor NewServerWithOptions); the parent restarts the service on the directory through the same public constructor and compares tables, families, GC rules and all rows with the model of the acknowledged requests (in-flight request wholly present or absent); crash-restart chains of length 2-3: every kill inside a schema / clear / create / delete request is followed by every second program of a catalogue (write; write+clear; delete+create+write; create+write+prefix drop ...). One open known finding (drop + re-create of the same family in one request) is recognised by a defect-aware model variant.",
   note="Crash model = process kill (what the statement says), not power loss. goleveldb's atomic Put/Delete and the kernel's atomic rename are trusted. Row-write points inside one multi-row request are not crash points.",
   ref="§4 C08"),
 "C20": dict(engine="SCHED", engines=["SCHED","SEQ"], technique="bounded-exhaustive input perturbation catalogue (one-thread controlled executions) plus preemption-bounded exploration of request mixes built with the race detector and a hand-off that adds no happens-before edge",
   text="(a) for every RPC / endpoint a valid base request and every single (and pairwise) perturbation of a finite catalogue generated by protobuf reflection and HTTP-level rules (fields dropped/empty/negative/huge, oneofs unset, unknown names, malformed URLs, every truncation point of JSON/multipart/batch bodies, bad ranges and content types, gzip flags, stream Send failures); each case is a one-thread controlled execution followed by probes (bystander data intact, valid requests still served, batch part = stand-alone request). (b) every unordered pair of admin/data requests on one table / bucket under the scheduler in a -race build whose scheduler hand-off creates no happens-before edge: any race report, panic, deadlock or fatal error in any explored schedule is a violation.",
   note="The race detector prints each distinct race once per worker process. Transport-level gzip errors may be plain text; API-level errors must be JSON.",
   ref="§4 C20"),
 "C09": dict(engine="SEQ", technique="explicit-state BFS over request programs with a restart (fresh emulator on the same directory) after every request, plus side-by-side differential execution on both stores",
   text="(a) every program up to the depth bound on the file store with the emulator replaced by a fresh instance on the same directory after EVERY request; the full observable state must equal the model of acknowledged requests, including after external loss of a sidecar and for bare content files; (b) the same programs on memory and file store side by side with every HTTP response compared after replacing generations by rank and masking timestamps.",
   note="The file store keeps no volatile state, so a new instance on the same directory is exactly a kill between requests. Names are file-representable.",
   ref="§4 C09"),
 "C10": dict(engine="SEQ", technique="explicit-state BFS over write/patch/read/failure/delete sequences under three wall-clock granularities on the real HTTP handler, invariant + reference-model oracle",
   text="Every sequence up to the depth bound over writes by every protocol, compose, copy, patches (user-settable, intrinsic-field and malformed bodies), reads, listings, failing requests, deletes and re-creations, for both stores and clock steps of 1 ns / 1 µs / 1 s; after every request the versioning laws are checked against the model (strictly increasing per-name generation, metageneration 1 / +1, nothing else changes, all reporting places agree).",
   note="The wall clock is the vtime seam: strictly increasing, never frozen or stepped back.",
   ref="§4 C10"),
 "C11": dict(engine="SEQ", technique="exhaustive product: every subset of an 8-name universe (and of a 7-name Unicode universe) x prefix x delimiter x page size x store on the real HTTP handler, page chains followed to the end",
   text="Every subset of the name universe (256) x 8 prefixes x 5 delimiters x 5 page sizes x 2 stores; every page chain is followed until nextPageToken is empty and the concatenation is compared with the model listing (completeness, order, no repeats across pages, page sizes, item metadata), plus missing bucket and malformed token / maxResults. A second universe holds names with 2/3/4-byte UTF-8 sequences and U+10FFFF (bytewise order differs from code-unit order; names sorting above the resume cursor of a collapsed prefix).",
   note="File store: subsets that are not representable as files (a name that is also a directory of another) are skipped and counted.",
   ref="§4 C11"),
 "C15": dict(engine="SEQ", technique="bounded-exhaustive enumeration of compose source lists and copy source/destination combinations on the real HTTP handler, reference-model oracle with follow-up patches",
   text="Every compose source list of length <=3 over present/empty/missing objects plus 31/32/33/40-element lists, destination new / nested / among the sources, per-source generation match; every copy source x destination-name catalogue ('/', '/o/', spaces, dots) x bucket; each followed by patches of result and source so that later aliasing is caught; response and complete state compared with the model on both stores.",
   note="Zero sources and a missing destination resource are not judged. componentCount not compared; composite MD5 unconstrained.",
   ref="§4 C15"),
 "C03": dict(engine="SEQ", technique="exhaustive product enumeration of RowSets x limits x table contents on the real service, membership-predicate oracle + chunk state machine",
   text="Every RowSet of <=1 range + <=1 key and every pair of ranges (+ optional key) with each bound unset/open/closed over the 7 adversarial keys, x rows_limit x table contents (every subset of the key universe for single ranges), executed as ReadRows on the real service per engine and compared with a predicate-on-keys oracle (no range merging) and an independent chunk-stream decoder; multi-message result sets, limits combined with row-emptying filters, and SampleRowKeys under every answer sequence of the random seam. The enumerated space is finite and is covered completely (evidence: exhaustive=true).",
   note="Trusted: membership predicate in bt/model.go, chunk decoder in bt/driver.go. Empty byte strings as bounds/keys are not exercised. Quick tier: leveldb engines use the 4-key sub-universe for range pairs; thorough: full universe on all three engines.",
   ref="§4 C03"),
 "C05": dict(engine="SEQ", technique="exhaustive enumeration of filter trees (leaf boundary catalogue, all depth-2 compositions of a 21-leaf basis, depth-3 of an 8-leaf basis) on the real service, independent evaluator oracle",
   text="Every leaf filter over its boundary arguments, every chain/interleave pair and every condition(p,t,f) over the basis, depth-3 compositions, and the row-sample filter under every coin sequence, each executed as a whole-table ReadRows on several tables and engines and compared cell-for-cell with an independent evaluator over the flat cell list (own regex matcher).",
   note="Trusted: evaluator + regex matcher in bt/. Cases whose answer depends on an order the documented semantics leave open are detected and skipped (counted). Invalid arguments must be rejected when lazy evaluation reaches them.",
   ref="§4 C05"),
 "C12": dict(engine="SEQ", technique="explicit-state BFS over row histories x predicate catalogue x mutation-list pairs on the real service, reference-model oracle",
   text="From every row state reached by a BFS over mutation histories, every predicate of a catalogue (none, leaves, compositions that strip/limit to zero cells, erroring ones) x every ordered pair of mutation lists is executed as one CheckAndMutateRow on a fresh instance; predicate_matched, the applied branch and the complete table state are compared with the reference model.",
   note="Trusted: reference model. Failure = any non-OK status. Lazily unreachable invalid predicate nodes are skipped as ambiguous.",
   ref="§4 C12"),
 "C13": dict(engine="SEQ", technique="exhaustive enumeration of rule lists x prior row states x injected clocks on the real service, reference-model oracle",
   text="Every rule list up to the length bound over extreme increments/appends on repeated and unknown columns x prior row states (absent, 8/7/9-byte, empty, multi-version, newest cell after/at/before the clock) x clock values, each executed as one ReadModifyWriteRow; response row and complete table state compared with the model (wrap-around arithmetic, timestamp = max(clock ms, newest), older versions kept, failure atomicity).",
   note="Trusted: reference model. Empty rule list not exercised.",
   ref="§4 C13"),
 "C14": dict(engine="SEQ", technique="explicit-state BFS over admin+data request sequences on the real service, reference-model oracle on registry and all rows",
   text="BFS with deduplication over sequences of table/family/row-range admin requests interleaved with data requests over two parents; after every request the response, GetTable/ListTables and a complete read of every table are compared with the model (all-or-nothing multi-modification requests, family drop purges cells, prefix drops with 0xff, delete/re-create starts empty).",
   note="Trusted: reference model. NotFound/AlreadyExists required exactly, other failures as any non-OK.",
   ref="§4 C14"),
 "C17": dict(engine="SEQ", technique="explicit-state BFS over request programs run on all storage engines side by side, pairwise positional comparison of every response",
   text="Differential model checking: every program up to the depth bound over an alphabet of admin/data requests (including filters that fail only on some rows, limits, drops, clears, re-created tables, a GC pass) is executed on btree, leveldb-mem (and leveldb-disk in the thorough tier) and every response plus a full read of every table is compared pairwise, positionally; plus a catalogue pass on a table of keys differing by trailing 0x00/0xff bytes: all 225 single row ranges (with and without an extra key and limit) and 11 DropRowRange prefixes (incl. empty and all-0xff).",
   note="No reference model involved: the oracle is agreement between engines. Error message texts are not compared.",
   ref="§4 C17"),
 "C01": dict(engine="SEQ", technique="explicit-state BFS over request sequences on the real service, reference-model oracle",
   text="Bounded-exhaustive explicit-state model checking of the real bttest service: every sequence of single-mutation requests up to the depth bound (dedup on model state + raw stored rows), plus the full boundary catalogue of mutations, all ordered pairs of core mutations (MutateRow and MutateRows) and all ordered triples of a 9-mutation core in one request from every shallow state; after every request the response and a complete unfiltered read are compared with an independent reference model of the Bigtable data model. Right level: the property quantifies over request programs and inputs; enumerating them on the implementation leaves no model-fidelity gap.",
   note="Trusted: reference model bt/model.go (naive maps), Go runtime, protobuf; family order inside a row is unspecified (compared as a set). Bounds (depth, alphabets, engines per tier) are reported in the evidence.",
   ref="§4 C01"),
}
def main():
    hooks_commits = subprocess.run(["git","-C","/repo","log","--format=%h","--grep=^verif hooks"],capture_output=True,text=True).stdout.split()
    m = {
      "version": 1,
      "setup_cmd": "bin/setup",
      "hooks": {
        "guard": "verif",
        "enable": "Go build tag: bin/check builds cmd/vcheck with `go build -tags verif -overlay <generated overlay.json>`; the overlay holds instrumented COPIES of the current /repo sources (sync->vsync, math/rand->vrand, os->vos, time.Now/After->vtime, select->vchan) produced by cmd/vinstr; /repo itself is never modified. The only files added to /repo are bigtable/bttest/verif_export.go and storage/gcsutil/verif_export.go (//go:build verif).",
        "baseline_off_cmd": "for m in bigtable storage; do (cd /repo/$m && GOFLAGS=-mod=mod go test -json -vet=off -count=1 -timeout 25m ./...); done",
        "source_commits": hooks_commits,
        "add_only": True,
      },
      "engines": [
        {"name":"SEQ","path":"checks/btworld.go, checks/*.go, bt/, gcs/","serves_properties":[],"kind_free_text":"bounded-exhaustive explicit-state search over operation sequences / input catalogues executed on the real implementation, reference-model oracle, sharded over worker processes"},
        {"name":"SCHED","path":"sched/, shim/","serves_properties":[],"kind_free_text":"stateless model checking of the real code under a cooperative scheduler: DFS over all interleavings at lock/channel/store/fs points with preemption bounding; optional race-detector mode with HB-free hand-off"},
        {"name":"CRASH","path":"checks/c08.go","serves_properties":[],"kind_free_text":"enumeration of every (program prefix x crash point) with a real SIGKILL of a worker process and recovery on the same directory"},
      ],
      "checks": [],
      "not_applicable": [],
      "notes": "All checks are `bin/check <id> <tier>`; they rebuild from /repo's current working tree on every call (binary cache keyed by the hash of all inputs is only an accelerator). Exit 0/1/2 = held / VIOLATION / infrastructure error. See DESIGN.md.",
    }
    for e in m["engines"]:
        e["serves_properties"] = [k for k,v in CHECKS.items() if v["engine"]==e["name"] or e["name"] in v.get("engines",[])]
    for cid in ALL:
        if cid in CHECKS:
            c = CHECKS[cid]
            m["checks"].append({
              "property_id": cid,
              "quick_cmd": "bin/check %s quick" % cid,
              "thorough_cmd": "bin/check %s thorough" % cid,
              "evidence_file": "/verif/evidence/%s.json" % cid,
              "replay_cmd_template": "bin/check %s replay {path}" % cid,
              "engine": c["engine"],
              "level_claimed": {"category": c.get("level","model_checking"), "text": c["text"], "design_ref": c["ref"]},
              "level_note": c["note"],
              "technique": c["technique"],
            })
        else:
            m["not_applicable"].append({"property_id": cid, "reason": "check not built yet in this session (planned, see DESIGN.md §4); not a limit of the technique"})
    json.dump(m, open(os.path.join(ROOT,"MANIFEST.json"),"w"), indent=1)
    print("MANIFEST.json: %d checks, %d not_applicable" % (len(m["checks"]), len(m["not_applicable"])))
main()
