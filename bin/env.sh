# sourced by bin/check and bin/setup
export GOFLAGS=-mod=mod GOPROXY=off GOSUMDB=off GOTOOLCHAIN=local GONOSUMDB=* GONOSUMCHECK=1 GOFLAGS="-mod=mod"
export VERIF_ROOT="${VERIF_ROOT:-$(cd "$(dirname "${BASH_SOURCE[0]}")/.." && pwd)}"
export VERIF_REPO="${VERIF_REPO:-/repo}"
