#!/bin/bash
# bin/build.sh [race]  -> prints the path of a vcheck binary built from the CURRENT /repo tree
# (instrumented through `go build -overlay`; /repo itself is never modified).
# Binaries are cached under $VERIF_ROOT/.cache keyed by the hash of every input; the cache is
# only an accelerator: a missing entry is rebuilt.
set -euo pipefail
. "$(dirname "$0")/env.sh"
cd "$VERIF_ROOT"
mode="${1:-plain}"
base=/dev/shm; [ -d "$base" ] && [ -w "$base" ] || base="${TMPDIR:-/tmp}"
work=$(mktemp -d "$base/vbuild.XXXXXX")
trap 'rm -rf "$work"' EXIT
mkdir -p .cache
if [ ! -x .cache/vinstr ] || [ cmd/vinstr/main.go -nt .cache/vinstr ]; then
  go build -o .cache/vinstr.$$ ./cmd/vinstr >&2 && mv .cache/vinstr.$$ .cache/vinstr
fi
# the file storage of goleveldb (a dependency of bigtable/bttest) is instrumented too, so that the file-system
# calls leveldb itself makes while it creates / opens / rotates a database are crash points of the C08 enumeration
ldb=$(cd "$VERIF_REPO/bigtable" && go list -m -f '{{.Dir}}' github.com/syndtr/goleveldb 2>/dev/null || true)
extra=""
if [ -n "$ldb" ] && [ -f "$ldb/leveldb/storage/file_storage.go" ]; then
  extra="$ldb/leveldb/storage/file_storage.go,$ldb/leveldb/storage/file_storage_unix.go"
fi
.cache/vinstr -repo "$VERIF_REPO" -target /repo -verif "$VERIF_ROOT" -out "$work/instr" -extra-os "$extra" >&2
# key: instrumented sources + all repo go files/go.mod of the three modules + verif sources
key=$( { find "$work/instr" -type f | sort | xargs sha256sum | sed "s#$work##";
         find "$VERIF_REPO/bigtable" "$VERIF_REPO/storage" -name '*.go' -o -name 'go.mod' | sort | xargs sha256sum;
         find cmd fw bt gcs sched shim checks -name '*.go' 2>/dev/null | sort | xargs sha256sum; cat go.mod; echo "$mode"; go version; } | sha256sum | cut -c1-24)
bin=".cache/vcheck-$mode-$key"
if [ ! -x "$bin" ]; then
  # the overlay paths must be stable for the cache key of go's own build cache: copy to a keyed dir
  odir=".cache/instr-$key"
  # (the key is the hash of the content: a directory that exists already is identical, and another build of the same
  # tree may be reading it right now - never replace it)
  if [ ! -f "$odir/overlay.json" ]; then
    rm -rf "$odir.tmp$$"; mkdir -p "$odir.tmp$$"
    cp -r "$work/instr/." "$odir.tmp$$/"
    sed -i "s#$work/instr#$VERIF_ROOT/$odir#g" "$odir.tmp$$/overlay.json"
    mv -T "$odir.tmp$$" "$odir" 2>/dev/null || rm -rf "$odir.tmp$$"
  fi
  flags=(-tags verif -overlay "$VERIF_ROOT/$odir/overlay.json")
  [ "$mode" = race ] && flags+=(-race)
  if ! go build "${flags[@]}" -o "$bin.tmp$$" ./cmd/vcheck >&2; then
    echo "build failed" >&2; exit 2
  fi
  mv "$bin.tmp$$" "$bin"
  # keep the cache small: drop entries older than the 40 newest (parallel runs against different trees must not evict each other)
  { ls -t .cache/vcheck-* 2>/dev/null | tail -n +41 | xargs -r rm -f; } || true   # a concurrent build's temp file may vanish under ls
  { ls -dt .cache/instr-* 2>/dev/null | tail -n +41 | xargs -r rm -rf; } || true
fi
echo "$VERIF_ROOT/$bin"
