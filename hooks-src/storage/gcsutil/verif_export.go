//go:build verif

package gcsutil

// VerifEntries returns a copy of the lock map's entries (key -> reference count), read under
// the map mutex. Verification-only (build tag "verif").
func (l *TransientLockMap) VerifEntries() map[string]int64 {
	l.mu.Lock()
	defer l.mu.Unlock()
	out := make(map[string]int64, len(l.locks))
	for k, v := range l.locks {
		out[k] = v.refcount
	}
	return out
}
