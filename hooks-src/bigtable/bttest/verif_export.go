//go:build verif

package bttest

// Verification-only exports (build tag "verif"). Nothing here is compiled into normal builds.
// They give an in-process checker access to the unexported service implementation without
// sockets, to its background GC loop, and to a raw dump of what is stored.

import (
	"net"
	"sort"

	"cloud.google.com/go/bigtable"
	btapb "cloud.google.com/go/bigtable/admin/apiv2/adminpb"
	btpb "cloud.google.com/go/bigtable/apiv2/bigtablepb"
	"google.golang.org/grpc"
)

// VerifServer is the service implementation behind Server.
type VerifServer = server

// NewVerifServer builds the service implementation on the given storage exactly as
// NewServerWithOptions does, minus the listener, the gRPC server and the GC goroutine.
func NewVerifServer(storage Storage, clock func() bigtable.Timestamp) *VerifServer {
	if clock == nil {
		clock = bigtable.Now
	}
	s := &server{
		storage: storage,
		tables:  make(map[string]*table),
		clock:   clock,
		done:    make(chan struct{}),
	}
	for _, tbl := range s.storage.GetTables() {
		rows := s.storage.Open(tbl)
		t := newTable(tbl, rows)
		// as NewServerWithOptions: finish an interrupted purge of a dropped family
		t.rows.Ascend(func(r *btpb.Row) bool {
			if r, changed := scrubRow(r, t.cols()); changed {
				t.updateRow(r)
			}
			return true
		})
		s.tables[tbl.Name] = t
	}
	return s
}

// VerifInner returns the service implementation of a listening Server.
func (s *Server) VerifInner() *VerifServer { return s.s }

// VerifGCLoop runs the background GC loop in the calling goroutine (it returns when the
// server is closed).
func (s *server) VerifGCLoop() { s.gcloop() }

// VerifCloseAsServer shuts the service down through the public Server.Close itself (on a Server value with a
// listener that does nothing and a gRPC server that was never started), so that the checker exercises the real
// shutdown path and not a copy of it.
func (s *server) VerifCloseAsServer() {
	(&Server{l: verifNopListener{}, srv: grpc.NewServer(), s: s}).Close()
}

type verifNopListener struct{}

func (verifNopListener) Accept() (net.Conn, error) { return nil, net.ErrClosed }
func (verifNopListener) Close() error              { return nil }
func (verifNopListener) Addr() net.Addr            { return &net.TCPAddr{} }

// VerifClose releases the storage of every table (what Server.Close does after stopping gRPC).
func (s *server) VerifClose() {
	close(s.done)
	var tbls []*table
	s.mu.Lock()
	for _, t := range s.tables {
		tbls = append(tbls, t)
	}
	s.mu.Unlock()
	for _, t := range tbls {
		t.mu.Lock()
		t.rows.Close()
		t.mu.Unlock()
	}
}

// VerifTableDump is the raw stored state of one table.
type VerifTableDump struct {
	Name string
	Def  *btapb.Table
	Rows []*btpb.Row
}

// VerifDump returns every table definition and every stored row as stored (including rows
// without cells), ordered by table name.
func (s *server) VerifDump() []VerifTableDump {
	s.mu.Lock()
	names := make([]string, 0, len(s.tables))
	for n := range s.tables {
		names = append(names, n)
	}
	sort.Strings(names)
	tbls := make([]*table, len(names))
	for i, n := range names {
		tbls[i] = s.tables[n]
	}
	s.mu.Unlock()
	out := make([]VerifTableDump, len(names))
	for i, t := range tbls {
		t.mu.RLock()
		d := VerifTableDump{Name: names[i], Def: t.def}
		t.rows.Ascend(func(r *btpb.Row) bool {
			d.Rows = append(d.Rows, r)
			return true
		})
		t.mu.RUnlock()
		out[i] = d
	}
	return out
}
